#!/usr/bin/env python3
"""Generates coq/Properties/Cxx.v: for every listed lemma of coq/Proofs/*.v the statement is
copied verbatim (so it is pinned in the property file), re-proved by `exact`, and followed by
`Print Assumptions`.  Run after a proof file changes; the generated files are committed.
Hand-written property files (C08, C09, C01) are not touched."""
import os, re, sys

COQ = os.path.join(os.path.dirname(os.path.abspath(__file__)), "..", "coq")


def stmt(path, name):
    s = open(os.path.join(COQ, "Proofs", path)).read()
    m = re.search(r"(?:Theorem|Lemma|Corollary|Example)\s+%s\s*:(.*?)\.\s*\n\s*Proof\." % re.escape(name), s, re.S)
    if not m:
        raise SystemExit("pin_props: statement of %s not found in %s" % (name, path))
    return m.group(1).strip()


STD = ["From Coq Require Import Ascii String.", "From Coq Require Import List NArith Bool PeanoNat Sorted.", "Import ListNotations.",
       "From RX Require Import Generated.",
       "From RX.Model Require Import Base CharClass Stream Tokenizer Doc Builder Parse Api."]

TABLE = {
 "C01": dict(
   intro="C01 -- parsing is total.\n   Termination: the model's OutOfFuel value (a loop of the Rust source that does not finish, or entity\n   recursion deeper than the level fuel) is unreachable on valid UTF-8 input: every loop iteration consumes\n   input and the loop detector bounds the entity nesting.  (On byte strings that are not valid UTF-8 the\n   model can loop: termination_needs_valid_utf8; a Rust &str is always valid UTF-8.)\n   No panic: the tokenizer reaches none of its panic sites (slicing, indexing, advance, unwrap) on valid\n   UTF-8, with any callback that does not panic itself; the real callback preserves the builder invariant\n   Core and reaches no panic site either; the final root-children check is covered through the arena\n   invariant of C02.  Together: parse_no_panic and parse_terminates, i.e. parse returns Ok or Err for every\n   valid UTF-8 input and every limit that fits the u32 field.  (The one site that could not be excluded,\n   ShortRange::from in resolve_namespaces, was a genuine defect: D17, repaired.)\n   The panic sites of the SOURCE that the model does not represent (it uses total functions there: slicing in\n   as_bytes / starts_with / process_cdata, from_utf8().unwrap() in skip_string, the debug assertions of push_ns and\n   of the range conversion, the swallowed advance in try_consume_byte; found by the model audit) are given strict\n   variants that DO panic there (Proofs/StrictModel.v) and proved unreachable: the builder sites over a whole run\n   (site_builder_run: the strict builder never panics), the others pointwise / on every constructible stream; the\n   table site -> theorem is in the header of Proofs/Strict.v.",
   imports=["From RX.Proofs Require Import TermStream TermUtf8 TermParse TermFinal NoPanicUtf8 NoPanicStream NoPanicTokenizer NoPanicBuilder NoPanicBuilderCtx NoPanicText NoPanicParse NoPanicFinal StrictModel StrictTok StrictStream StrictBuilder StrictApi Strict StrictRunModel StrictRun."],
   groups=[("NoPanicFinal.v", ["parse_no_panic"]), ("TermFinal.v", ["parse_terminates"]),
           ("StrictRun.v", ["strict_refines", "parse_strict_no_panic"]),
           ("Strict.v", ["site_builder_run", "site_cdata_unreachable", "site_ns_range_unreachable", "site_try_consume_byte_unreachable",
                         "site_skip_string_unreachable", "site_advance_until2_unreachable", "strict_callback_refines"]),
           ("TermParse.v", ["tokenizer_terminates", "token_terminates", "token_preserves_depth0", "parse_document_terminates"]),
           ("TermUtf8.v", ["termination_needs_valid_utf8"], "Local Notation safe := TermStream.safe."),
           ("NoPanicTokenizer.v", ["tokenizer_no_panic"], "Local Notation token := Tokenizer.token."),
           ("NoPanicParse.v", ["token_no_panic", "token_preserves_core", "parse_document_token_no_panic"],
            "Local Notation TokOk := NoPanicTokenizer.TokOk.")]),
 "C02": dict(
   intro="C02 -- a parsed document is a well-formed ordered tree: the arena of every successfully parsed\n   document is the pre-order encoding (Spec/Tree.v) of a tree whose root is the Root node, with no other\n   Root below, children only under Root / Element nodes, and at least one element child of the root.\n   (encode makes 'ids dense and in pre-order, every node reached once, parent / prev-sibling /\n   last-child / next-subtree links mutually consistent' one equation.)",
   imports=["From RX.Spec Require Import Tree.", "From RX.Proofs Require Import KeystoneEnc KeystoneBuilder KeystoneParse KeystoneProto KeystoneWf KeystoneParseWf."],
   groups=[("KeystoneParseWf.v", ["parse_wf_doc_tree", "parse_no_adjacent_text", "parse_single_root_element", "parse_no_text_under_root"]),
           ("KeystoneParse.v", ["parse_links_tree"])]),
 "C07": dict(
   intro="C07 -- an entity reference is equivalent to its replacement text written in place.\n   Machine level: processing pre ++ mid ++ post inline equals processing pre, then mid as an entity value\n   (its own stream, entity mode), then post -- for attribute values and for character data -- provided no\n   CR LF pair is split by a cut (XML 2.11 normalises line ends per entity; the two *_split_crlf lemmas show\n   the proviso is necessary).  On the model: at an entity reference the loops really run the replacement\n   text in place (norm_attr_entity_step, text_loop_entity_step); the first declaration of a name wins.\n   Whole documents on the fragment of Spec/CstEnt.v (the CstText fragment plus an internal DTD subset declaring general\n   entities, references in content and in attribute values, nested up to the documented limits, re-declarations):\n   sem c is DEFINED as the meaning of the document with every reference replaced by its (first-declared) replacement\n   text, computed on the abstract syntax; parse (render c) yields exactly that (parse_render_sem_ent_partial), so two\n   documents that differ only in what is routed through entities (hoist_insensitive_partial), and a document and its\n   fully inlined DOCTYPE-free version (inlined_equiv_partial), give identical trees.  The\n   unrestricted theorems cover entities whose replacement text contains markup (elements with attributes, comments, PIs,\n   CDATA, text, further references), with text merging across entity boundaries; their size hypotheses are on the meaning\n   (an entity can multiply nodes).  The `_partial` variants (character-data entities) keep the input-length hypothesis.\n   Excluded by wf_doc, each with its reason in Spec/CstEnt.v: the CR LF proviso, D15 (the known finding), character\n   references to TAB / LF / CR / '&' / '<' inside entity values (declaration-time vs use-time reading).\n   The same WITH NAMESPACES AND UNICODE (Spec/CstFullS4.v, on the CstFull frame): entity values are character data or\n   items with qualified names, namespace declarations and attributes; the meaning inlines first and resolves namespaces\n   afterwards, i.e. in the scope of the place of REFERENCE -- parse_render_sem_full_s4, hoist_insensitive_full_s4.\n   With allow_dtd = false the same rendering gives Err DtdDetected (dtd_refused, markup entities included).",
   imports=["From RX.Spec Require Import Text.", "From RX.Spec Require Cst CstText CstEnt.", "From RX.Proofs Require Import TextMachine HoistProofs RejectProofs CstMain CstTextSem CstEntSem CstEntDoc CstEntMain CstEntCMain.", "From RX.Spec Require CstFull CstFullS4.", "From RX.Proofs Require CstNsView CstFullS4Main.", "From RX.Spec Require CstFull CstFullS4 CstFullS6.", "From RX.Proofs Require CstNsView CstFullS6Main CstFullRejSem CstFullS6Sanity KnownFindingsD15 TextMachine KnownFindingsMore CstFullD15Main."],
   groups=[("KnownFindingsMore.v", ["d15b_refuted", "lt_at_depth_refused", "d30_refuted", "d30_explained", "text_hoist_with_refs_refuted", "d29_d30_outside_fragments"], "Import RX.Spec.CstFull. Import RX.Spec.CstFullS4. Import RX.Spec.CstFullS6. Import RX.Proofs.CstNsView. Import RX.Proofs.TextMachine. Import RX.Proofs.KnownFindingsMore.", "CHECK"),
           ("CstFullD15Main.v", ["d15_rejected"], "Import RX.Spec.CstFull. Import RX.Spec.CstFullS4. Import RX.Spec.CstFullS6. Import RX.Proofs.CstNsView. Import RX.Proofs.CstFullS6Main. Import RX.Proofs.CstFullRejSem. Import RX.Proofs.KnownFindingsD15. Import RX.Proofs.CstFullD15Main.", "CHECK"),
           ("KnownFindingsD15.v", ["d15_refuted", "d15_outside_class", "hoist_outside_d15", "ninline_extends"], "Import RX.Spec.CstFull. Import RX.Spec.CstFullS4. Import RX.Spec.CstFullS6. Import RX.Proofs.CstNsView. Import RX.Proofs.CstFullS6Main. Import RX.Proofs.CstFullRejSem. Import RX.Proofs.CstFullS6Sanity. Import RX.Proofs.KnownFindingsD15."),
           ("CstFullS4Main.v", ["parse_render_sem_full_s4", "hoist_insensitive_full_s4"], "Import RX.Spec.CstFull. Import RX.Spec.CstFullS4. Import RX.Proofs.CstNsView. Import RX.Proofs.CstFullS4Main."),
           ("CstEntCMain.v", ["parse_render_sem_ent", "hoist_insensitive", "inlined_equiv"], "Module E := CstEnt."),
           ("CstEntMain.v", ["parse_render_sem_ent_partial", "hoist_insensitive_partial", "inlined_equiv_partial", "dtd_refused"]),
           ("HoistProofs.v", ["push_attr_chunks_app", "push_attr_lits_depth", "attr_hoist_equiv", "attr_hoist_normalise", "norm_attr_entity_step",
                              "push_text_chunks_app", "text_boundary", "text_hoist_equiv", "text_hoist_decode", "text_loop_entity_step",
                              "entity_first_declaration_wins", "text_hoist_split_crlf", "attr_hoist_split_crlf"]),
           ("RejectProofs.v", ["find_entity_first", "ok_refs_defined_first"], "Local Notation token := Tokenizer.token.")]),
 "C08": dict(
   intro="C08 -- ill-formed documents are rejected.  (1) the three character classes are the Fifth Edition\n   productions for every scalar value (tables regenerated from the source on every run);\n   (2) local rejection theorems, 'accepted implies constraint': comment bodies, ']]>' in text, misplaced\n   declaration, '<' in attribute values, every consumed character is a Char, end tags match the open\n   element and cannot close an element opened outside the current entity, reserved prefixes and URIs,\n   entity references are declared (first declaration wins), and the document-level token shape: only\n   comments / PIs (and entity declarations) before the root, at most one root element, only\n   comments / PIs after it.  (3) Soundness against the grammar on the byte fragment that Spec/Cst.v covers\n   (in_fragment, Proofs/CstSound.v: printable ASCII / TAB / LF, no '&', no ':', no '<!D' '<![' '<?xml' 'xmlns';\n   attrs_raw: no attribute value was normalised): every ACCEPTED input is the rendering of a well-formed abstract\n   document (parse_sound_fragment) -- the parser accepts nothing outside the grammar there -- and its tree is that\n   document's meaning (parse_sound_and_complete).  (4) Truncation: for EVERY accepted document (DOCTYPE and entity expansion included) and\n   every cut (on a character boundary) before the end of its root element, the prefix is rejected\n   (truncation_rejected; root_element_end d and firstn_N are defined in Proofs/TruncMain.v).  (5) Soundness over\n   Unicode (in_fragment_u, Proofs/CstSoundU.v: valid UTF-8, no CR, '&', ':', '<!D', '<![', '<?xml', 'xmlns', no leading\n   BOM): every accepted input is the rendering of a well-formed document of Spec/CstU.v (parse_sound_fragment_u).\n   (6) Soundness with references and CDATA (in_fragment_t, Proofs/CstSoundT.v: printable ASCII / TAB / LF, '&' and\n   '<![' allowed, numeric references denote scalar values -- the documented U+FFFD leniency excluded): every accepted input\n   is the rendering of a well-formed document of Spec/CstText.v, with NO condition on the result (parse_sound_fragment_t).\n   (7) Namespace constraints at document level (Spec/CstNs.v): a syntactically well-formed document that violates one of\n   N1-N7 (undeclared prefix, duplicate declaration, duplicate attribute by expanded name, misuse of xml / xmlns prefixes\n   and URIs) is rejected with one of the namespace error variants (ns_violation_rejected).  (8) Soundness WITH NAMESPACES\n   (in_fragment_n, Proofs/CstSoundN.v: valid UTF-8, qualified names and xmlns declarations allowed, references and CDATA\n   allowed; no CR, DOCTYPE, XML declaration, BOM; numeric references scalar; no leading-colon names and no colon in PI\n   targets -- two leniencies, each with its Example): every accepted input is the rendering of a well-formed document of\n   Spec/CstFull.v stage S2, hence satisfies N1-N7 on normalised URIs; the resource bounds of the completeness theorem\n   follow from acceptance (parse_sound_fragment_n_res), so the parsed tree IS the document's meaning\n   (parse_sound_and_complete_n).  (9) Soundness WITH THE PROLOG AND ENTITIES (in_fragment_p, Proofs/CstSoundP.v: BOM, XML\n   declaration, DOCTYPE with every kind of declaration, character-data general entities declared AND used; conditions P1-P8\n   on the bytes, each leniency with its Example): every accepted input is the rendering of a well-formed document of\n   Spec/CstFullS5.v (parse_sound_fragment_p) -- this covers misplaced / repeated XML declarations, undefined references,\n   recursion, '<' reaching an attribute value through an entity, and the DTD syntax.",
   imports=["From RX.Spec Require Chars.", "From RX.Spec Require Cst.", "From RX.Proofs Require Import CharTablesProofs RejectProofs WfParseTok WfParseChars WfParse CstSound CstSoundDoc CstSoundCor TruncMain TruncDtdMain CstSoundU CstSoundUDoc CstSoundUCor CstSoundT CstSoundTDoc CstSoundTCor NsRejDefs NsRejBuild NsRejMain CstNsView CstFullMain CstSoundN CstSoundNDoc CstSoundNCor.", "From RX.Spec Require CstU CstText CstNs CstFull CstFullS5.", "From RX.Proofs Require CstSoundP CstSoundPRDoc CstSoundPRCor.", "From RX.Spec Require CstFullS4 CstFullS6.", "From RX.Proofs Require KnownFindingsMore KnownFindingsD21 CstSound6P CstSound6 CstSound6U CstSound6uCor CstSound6a CstSound6aFinal CstSound6bFinal CstSound6rCor CstSound6c CstSound6cFinal CstSound6dFinal CstSound6eCor CstFullS6Main CstSound7 CstSound7Final CstSound8 CstSound8Final CstSound8Cor CstSound9 CstSound9Final CstSound10 CstSound10Final CstSound11 CstSound11Final CstSoundCr CstSoundCrLex2 CstSoundCrFinal CstSoundAll CstSound10eCor CstSoundAllCor CstSoundAll11 CstSoundAll11Cor CstFullRejSem CstFullRejTrace CstFullRejDoc CstFullRejMain CstFullNsRejMain.", "From RX.Spec Require CstFullS11.", "From RX.Proofs Require CstFullS11Main CstFullRejS11Sem CstFullRejS11Doc CstFullRejS11Main CstFullRejS11NsMain NsRejDefs NsRejBuild."],
   groups=[("CharTablesProofs.v", ["char_tables_conform", "byte_tables_conform", "byte_space_conform", "byte_char_agree"]),
           ("RejectProofs.v", ["ok_comment_body", "ok_text_no_cdata_end", "ok_pi_not_declaration", "ok_no_lt_in_attr", "skip_chars_only_chars",
                               "skip_chars_only_chars_text", "consume_chars_only_chars", "ok_tags_balanced", "ok_reserved_names",
                               "ok_element_prefix_not_xmlns", "find_entity_first", "ok_refs_defined", "ok_refs_defined_first",
                               "ok_document_shape", "ok_no_text_before_root"], "Local Notation token := Tokenizer.token."),
           ("WfParse.v", ["parse_comments_ok", "parse_names_are_names", "parse_all_chars", "parse_doc_wf"]),
           ("CstSoundDoc.v", ["parse_sound_fragment"]), ("CstSoundCor.v", ["parse_sound_and_complete"]),
           ("TruncMain.v", ["truncation_not_ok_partial", "truncation_rejected_partial"]),
           ("TruncDtdMain.v", ["truncation_not_ok", "truncation_rejected"]),
           ("CstSoundUDoc.v", ["parse_sound_fragment_u"]), ("CstSoundUCor.v", ["parse_sound_and_complete_u"]),
           ("CstSoundTDoc.v", ["parse_sound_fragment_t"]), ("CstSoundTCor.v", ["parse_sound_and_complete_t"]),
           ("CstSoundNDoc.v", ["parse_sound_fragment_n", "parse_sound_fragment_n_res"], "Import CstFull."), ("CstSoundNCor.v", ["parse_sound_and_complete_n"], "Import CstFull."),
           ("CstSoundPRDoc.v", ["parse_sound_fragment_p", "parse_sound_fragment_p_res"], "Import RX.Spec.CstFull. Import RX.Spec.CstFullS5. Import RX.Proofs.CstSoundP. Import RX.Proofs.CstSoundPRDoc."),
           ("CstSoundPRCor.v", ["parse_sound_and_complete_p"], "Import RX.Spec.CstFull. Import RX.Spec.CstFullS5. Import RX.Proofs.CstNsView. Import RX.Proofs.CstSoundP. Import RX.Proofs.CstSoundPRCor."),
           ("CstSound6P.v", ["parse_sound_fragment_6_on_p", "parse_sound_and_complete_6_on_p"], "Import RX.Spec.CstFull. Import RX.Spec.CstFullS5. Import RX.Spec.CstFullS6. Import RX.Proofs.CstNsView. Import RX.Proofs.CstSoundP. Import RX.Proofs.CstSound6P."),
           ("CstSound6uCor.v", ["parse_sound_fragment_6u", "parse_sound_and_complete_6u"], "Import RX.Spec.CstFull. Import RX.Spec.CstFullS5. Import RX.Spec.CstFullS6. Import RX.Proofs.CstNsView. Import RX.Proofs.CstSoundP. Import RX.Proofs.CstSound6. Import RX.Proofs.CstSound6U. Import RX.Proofs.CstSound6uCor."),
           ("CstSound6bFinal.v", ["parse_sound_fragment_6a"], "Import RX.Spec.CstFull. Import RX.Spec.CstFullS5. Import RX.Spec.CstFullS6. Import RX.Proofs.CstSoundP. Import RX.Proofs.CstSound6. Import RX.Proofs.CstSound6U. Import RX.Proofs.CstSound6a. Import RX.Proofs.CstSound6bFinal."),
           ("CstSound6rCor.v", ["parse_sound_fragment_6a_res", "parse_sound_and_complete_6a", "parse_sound_and_complete_6a_nl", "parse_view_of_witness"], "Import RX.Spec.CstFull. Import RX.Spec.CstFullS5. Import RX.Spec.CstFullS6. Import RX.Proofs.CstNsView. Import RX.Proofs.CstSoundP. Import RX.Proofs.CstSound6. Import RX.Proofs.CstSound6U. Import RX.Proofs.CstSound6a. Import RX.Proofs.CstSound6rCor."),
           ("CstSoundAll11Cor.v", ["parse_sound_all11_res", "parse_sound_and_complete_all11", "parse_sound_and_complete_all11_nl"], "Import RX.Spec.CstFull. Import RX.Spec.CstFullS5. Import RX.Spec.CstFullS6. Import RX.Spec.CstFullS7. Import RX.Spec.CstFullS8. Import RX.Spec.CstFullS9. Import RX.Spec.CstFullS10. Import RX.Spec.CstFullS11. Import RX.Proofs.CstNsView. Import RX.Proofs.CstSoundP. Import RX.Proofs.CstSound6. Import RX.Proofs.CstSound6U. Import RX.Proofs.CstSound7. Import RX.Proofs.CstSound8. Import RX.Proofs.CstSound9. Import RX.Proofs.CstSound10. Import RX.Proofs.CstSound11. Import RX.Proofs.CstSoundCr. Import RX.Proofs.CstSoundCrFinal. Import RX.Proofs.CstSoundAll. Import RX.Proofs.CstSoundAll11. Import RX.Proofs.CstSoundAll11Cor."),
           ("CstSoundAll11.v", ["parse_sound_all11"], "Import RX.Spec.CstFull. Import RX.Spec.CstFullS5. Import RX.Spec.CstFullS6. Import RX.Spec.CstFullS7. Import RX.Spec.CstFullS8. Import RX.Spec.CstFullS9. Import RX.Spec.CstFullS10. Import RX.Spec.CstFullS11. Import RX.Proofs.CstNsView. Import RX.Proofs.CstSoundP. Import RX.Proofs.CstSound6. Import RX.Proofs.CstSound6U. Import RX.Proofs.CstSound7. Import RX.Proofs.CstSound8. Import RX.Proofs.CstSound9. Import RX.Proofs.CstSound10. Import RX.Proofs.CstSound11. Import RX.Proofs.CstSoundCr. Import RX.Proofs.CstSoundCrFinal. Import RX.Proofs.CstSoundAll. Import RX.Proofs.CstSoundAll11. "),
           ("CstSoundAllCor.v", ["parse_sound_all_res", "parse_sound_and_complete_all", "parse_sound_and_complete_all_nl"], "Import RX.Spec.CstFull. Import RX.Spec.CstFullS5. Import RX.Spec.CstFullS6. Import RX.Spec.CstFullS7. Import RX.Spec.CstFullS8. Import RX.Spec.CstFullS9. Import RX.Spec.CstFullS10. Import RX.Proofs.CstNsView. Import RX.Proofs.CstSoundP. Import RX.Proofs.CstSound6. Import RX.Proofs.CstSound6U. Import RX.Proofs.CstSound7. Import RX.Proofs.CstSound8. Import RX.Proofs.CstSound9. Import RX.Proofs.CstSound10. Import RX.Proofs.CstSoundCr. Import RX.Proofs.CstSoundCrFinal. Import RX.Proofs.CstSoundAll. Import RX.Proofs.CstSoundAllCor."),
           ("CstSoundAll.v", ["parse_sound_all"], "Import RX.Spec.CstFull. Import RX.Spec.CstFullS5. Import RX.Spec.CstFullS6. Import RX.Spec.CstFullS7. Import RX.Spec.CstFullS8. Import RX.Spec.CstFullS9. Import RX.Spec.CstFullS10. Import RX.Proofs.CstNsView. Import RX.Proofs.CstSoundP. Import RX.Proofs.CstSound6. Import RX.Proofs.CstSound6U. Import RX.Proofs.CstSound7. Import RX.Proofs.CstSound8. Import RX.Proofs.CstSound9. Import RX.Proofs.CstSound10. Import RX.Proofs.CstSoundCr. Import RX.Proofs.CstSoundCrFinal. Import RX.Proofs.CstSoundAll. "),
           ("CstSound10eCor.v", ["parse_sound_fragment_10_res", "parse_sound_and_complete_10"], "Import RX.Spec.CstFull. Import RX.Spec.CstFullS5. Import RX.Spec.CstFullS6. Import RX.Spec.CstFullS7. Import RX.Spec.CstFullS8. Import RX.Spec.CstFullS9. Import RX.Spec.CstFullS10. Import RX.Proofs.CstNsView. Import RX.Proofs.CstSoundP. Import RX.Proofs.CstSound6. Import RX.Proofs.CstSound6U. Import RX.Proofs.CstSound7. Import RX.Proofs.CstSound8. Import RX.Proofs.CstSound9. Import RX.Proofs.CstSound10. Import RX.Proofs.CstSoundCr. Import RX.Proofs.CstSoundCrFinal. Import RX.Proofs.CstSoundAll. Import RX.Proofs.CstSound10eCor."),
           ("CstSoundCrFinal.v", ["parse_sound_fragment_8cr2"], "Import RX.Spec.CstFull. Import RX.Spec.CstFullS5. Import RX.Spec.CstFullS6. Import RX.Spec.CstFullS7. Import RX.Spec.CstFullS8. Import RX.Proofs.CstSoundP. Import RX.Proofs.CstSound6. Import RX.Proofs.CstSound6U. Import RX.Proofs.CstSound7. Import RX.Proofs.CstSound8. Import RX.Proofs.CstSoundCr. Import RX.Proofs.CstSoundCrLex2. Import RX.Proofs.CstSoundCrFinal."),
           ("CstSound11Final.v", ["parse_sound_fragment_11", "parse_sound_and_complete_11_hyp"], "Import RX.Spec.CstFull. Import RX.Spec.CstFullS5. Import RX.Spec.CstFullS6. Import RX.Spec.CstFullS7. Import RX.Spec.CstFullS8. Import RX.Spec.CstFullS9. Import RX.Spec.CstFullS10. Import RX.Spec.CstFullS11. Import RX.Proofs.CstNsView. Import RX.Proofs.CstSoundP. Import RX.Proofs.CstSound6. Import RX.Proofs.CstSound6U. Import RX.Proofs.CstSound7. Import RX.Proofs.CstSound8. Import RX.Proofs.CstSound9. Import RX.Proofs.CstSound10. Import RX.Proofs.CstSound11. Import RX.Proofs.CstSound11Final."),
           ("CstSound10Final.v", ["parse_sound_fragment_10", "parse_sound_and_complete_10_hyp"], "Import RX.Spec.CstFull. Import RX.Spec.CstFullS5. Import RX.Spec.CstFullS6. Import RX.Spec.CstFullS7. Import RX.Spec.CstFullS8. Import RX.Spec.CstFullS9. Import RX.Spec.CstFullS10. Import RX.Proofs.CstNsView. Import RX.Proofs.CstSoundP. Import RX.Proofs.CstSound6. Import RX.Proofs.CstSound6U. Import RX.Proofs.CstSound7. Import RX.Proofs.CstSound8. Import RX.Proofs.CstSound9. Import RX.Proofs.CstSound10. Import RX.Proofs.CstSound10Final."),
           ("CstSound9Final.v", ["parse_sound_fragment_9", "parse_sound_and_complete_9_hyp"], "Import RX.Spec.CstFull. Import RX.Spec.CstFullS5. Import RX.Spec.CstFullS6. Import RX.Spec.CstFullS7. Import RX.Spec.CstFullS8. Import RX.Spec.CstFullS9. Import RX.Proofs.CstNsView. Import RX.Proofs.CstSoundP. Import RX.Proofs.CstSound6. Import RX.Proofs.CstSound6U. Import RX.Proofs.CstSound7. Import RX.Proofs.CstSound8. Import RX.Proofs.CstSound9. Import RX.Proofs.CstSound9Final."),
           ("CstSound8Cor.v", ["parse_sound_and_complete_8_hyp"], "Import RX.Spec.CstFull. Import RX.Spec.CstFullS5. Import RX.Spec.CstFullS6. Import RX.Spec.CstFullS7. Import RX.Spec.CstFullS8. Import RX.Spec.CstFullS9. Import RX.Proofs.CstNsView. Import RX.Proofs.CstSoundP. Import RX.Proofs.CstSound6. Import RX.Proofs.CstSound6U. Import RX.Proofs.CstSound7. Import RX.Proofs.CstSound8. Import RX.Proofs.CstSound8Cor."),
           ("CstSound7Final.v", ["parse_sound_fragment_7"], "Import RX.Spec.CstFull. Import RX.Spec.CstFullS5. Import RX.Spec.CstFullS6. Import RX.Spec.CstFullS7. Import RX.Spec.CstFullS8. Import RX.Proofs.CstSoundP. Import RX.Proofs.CstSound6. Import RX.Proofs.CstSound6U. Import RX.Proofs.CstSound7. Import RX.Proofs.CstSound7Final."),
           ("CstSound8Final.v", ["parse_sound_fragment_8"], "Import RX.Spec.CstFull. Import RX.Spec.CstFullS5. Import RX.Spec.CstFullS6. Import RX.Spec.CstFullS7. Import RX.Spec.CstFullS8. Import RX.Proofs.CstSoundP. Import RX.Proofs.CstSound6. Import RX.Proofs.CstSound6U. Import RX.Proofs.CstSound7. Import RX.Proofs.CstSound8. Import RX.Proofs.CstSound8Final."),
           ("CstSound6dFinal.v", ["parse_sound_fragment_6"], "Import RX.Spec.CstFull. Import RX.Spec.CstFullS5. Import RX.Spec.CstFullS6. Import RX.Proofs.CstNsView. Import RX.Proofs.CstSoundP. Import RX.Proofs.CstSound6. Import RX.Proofs.CstSound6U. Import RX.Proofs.CstSound6dFinal."),
           ("CstSound6eCor.v", ["parse_sound_fragment_6_res", "parse_sound_and_complete_6", "parse_sound_and_complete_6_nl"], "Import RX.Spec.CstFull. Import RX.Spec.CstFullS5. Import RX.Spec.CstFullS6. Import RX.Proofs.CstNsView. Import RX.Proofs.CstSoundP. Import RX.Proofs.CstSound6. Import RX.Proofs.CstSound6U. Import RX.Proofs.CstSound6eCor."),
           ("CstSound6cFinal.v", ["parse_sound_fragment_6c"], "Import RX.Spec.CstFull. Import RX.Spec.CstFullS5. Import RX.Spec.CstFullS6. Import RX.Proofs.CstSoundP. Import RX.Proofs.CstSound6. Import RX.Proofs.CstSound6U. Import RX.Proofs.CstSound6a. Import RX.Proofs.CstSound6c. Import RX.Proofs.CstSound6cFinal."),
           ("CstSound6aFinal.v", ["parse_sound_fragment_6a1"], "Import RX.Spec.CstFull. Import RX.Spec.CstFullS5. Import RX.Spec.CstFullS6. Import RX.Proofs.CstSoundP. Import RX.Proofs.CstSound6. Import RX.Proofs.CstSound6U. Import RX.Proofs.CstSound6a. Import RX.Proofs.CstSound6aFinal."),
           ("KnownFindingsMore.v", ["d27_refuted", "d28_refuted", "d29_refuted"], "Import RX.Proofs.CstNsView. Import RX.Proofs.KnownFindingsMore.", "CHECK"),
           ("KnownFindingsD21.v", ["d21_refuted", "d21_wf_for_spec", "d21_outside_class", "d21_outside_class_variant"], "Import RX.Spec.CstNs. Import RX.Proofs.NsRejDefs. Import RX.Proofs.NsRejBuild. Import RX.Proofs.NsRejMain. Import RX.Proofs.KnownFindingsD21."),
           ("NsRejMain.v", ["ns_violation_rejected"], "Import CstNs."),
           ("CstFullRejS11NsMain.v", ["ns_violation_rejected_full_s11"], "Import RX.Spec.CstFull. Import RX.Spec.CstFullS4. Import RX.Spec.CstFullS6. Import RX.Spec.CstFullS11. Import RX.Proofs.CstNsView. Import RX.Proofs.CstFullS11Main. Import RX.Proofs.NsRejDefs. Import RX.Proofs.NsRejBuild. Import RX.Proofs.CstFullRejSem. Import RX.Proofs.CstFullRejS11Sem. Import RX.Proofs.CstFullRejTrace. Import RX.Proofs.CstFullRejS11Doc. Import RX.Proofs.CstFullRejMain. Import RX.Proofs.CstFullRejS11Main. Import RX.Proofs.CstFullNsRejMain. Import RX.Proofs.CstFullRejS11NsMain."),
           ("CstFullNsRejMain.v", ["ns_violation_rejected_full_s6"], "Import RX.Spec.CstFull. Import RX.Spec.CstFullS4. Import RX.Spec.CstFullS6. Import RX.Proofs.CstNsView. Import RX.Proofs.CstFullS6Main. Import RX.Proofs.NsRejDefs. Import RX.Proofs.NsRejBuild. Import RX.Proofs.CstFullRejSem. Import RX.Proofs.CstFullRejTrace. Import RX.Proofs.CstFullRejDoc. Import RX.Proofs.CstFullRejMain. Import RX.Proofs.CstFullNsRejMain.")]),
 "C03": dict(
   intro="C03 -- elements, comments and PIs mirror the document's logical structure.  Lexer post-conditions\n   (with a token recorder as callback): a comment token's text is exactly the source between '<!--' and\n   '-->'; a PI's target and value are the source strings (value without leading whitespace, None when\n   empty); CDATA / text tokens are their source slices; the DOCTYPE and the prolog / epilog deliver only\n   comments, PIs (and entity declarations); a start tag delivers ElementStart, attributes, one ElementEnd.\n   The XML declaration has no callback at all.  Document-level token shape: Proofs/RejectProofs.v.\n   Completeness on the fragment of Spec/Cst.v (ASCII names and content, no DOCTYPE, references, namespaces, CR): every\n   rendering of a well-formed abstract document -- with any layout choices: whitespace in tags, quote style,\n   empty-element syntax, prolog / epilog comments and PIs -- parses to exactly its meaning (view = sem:\n   kinds, names, attributes in order with values, comment text, PI target / value, text, children counts), so two\n   renderings with the same meaning give the same tree (layout_insensitive).  view is defined in Proofs/CstMain.v.\n   The same over Unicode (Spec/CstU.v: names, values, text, comments, PIs are lists of scalar values in the 5th-edition\n   Name / Char classes, rendered in UTF-8): parse_render_sem_u, layout_insensitive_u, render_valid_utf8.\n   The largest fragment (Spec/CstFull.v stage S3 = Unicode + namespaces + pieces + character-data entities, pinned under\n   C06) extended by the whole PROLOG (Spec/CstFullS5.v): byte order mark, XML declaration, DOCTYPE with external id and an\n   internal subset holding every kind of declaration (general / parameter / external / unparsed entities, ELEMENT /\n   ATTLIST / NOTATION, comments and PIs -- which become nodes under the Root), CR in markup whitespace:\n   parse_render_sem_full_s5 and prolog_insensitive_full_s5 (same meaning => same tree, whatever the prolog).\n   THE CAPSTONE (Spec/CstFullS6.v): S4's entities (character data or markup with qualified names, resolved at the place\n   of reference) inside S5's prolog, CR in markup whitespace everywhere -- ONE statement for the whole supported subset:\n   parse_render_sem_full_s6; same meaning => same tree whatever the distribution over entities, the prolog and the layout\n   (hoist_prolog_insensitive_full_s6); S4 and S5 embed with the same rendering and meaning (s4_in_s6, s5_in_s6), hence\n   so do S1..S3.  What S6 still excludes is listed in the spec files: CR inside comment / PI bodies (admitted by S7), '%' and character references to TAB / LF / CR / '&' / '<' inside entity literals, colons\n   in DOCTYPE / entity names, the CR LF proviso and D15.",
   imports=["From RX.Spec Require Cst.", "From RX.Spec Require CstU CstNs CstFull CstFullS5.", "From RX.Proofs Require Import LexerProofs RejectProofs CstMain CstUMain.", "From RX.Proofs Require CstNsView CstFullMain CstFullS5 CstFullS6Main CstFullS6Embed5.", "From RX.Spec Require CstFullS4 CstFullS6.", "From RX.Proofs Require ApiViewAcc ApiView ApiViewProofs ApiViewCapstone.", "From RX.Spec Require CstFullS7 CstFullS8 CstFullS9 CstFullS10 CstFullS11.", "From RX.Proofs Require CstFullS7Main CstFullS8Main CstFullS9Main CstFullS10Main CstFullS11Main."],
   groups=[("CstMain.v", ["parse_render_sem", "layout_insensitive"]),
           ("ApiViewCapstone.v", ["parse_render_sem_full_s6_api", "hoist_prolog_insensitive_full_s6_api"], "Import RX.Spec.CstFull. Import RX.Spec.CstFullS6. Import RX.Proofs.ApiView. Import RX.Proofs.ApiViewProofs. Import RX.Proofs.ApiViewCapstone."),
           ("ApiViewProofs.v", ["api_view_agrees", "api_view_defined"], "Import RX.Proofs.ApiViewAcc. Import RX.Proofs.ApiView. Import RX.Proofs.ApiViewProofs."),
           ("CstFullS7Main.v", ["parse_render_sem_full_s7", "parse_render_sem_full_s7_api", "s6_in_s7"], "Import RX.Spec.CstFull. Import RX.Spec.CstFullS6. Import RX.Spec.CstFullS7. Import RX.Proofs.CstNsView. Import RX.Proofs.ApiView. Import RX.Proofs.CstFullS7Main."),
           ("CstFullS11Main.v", ["parse_render_sem_full_s11", "parse_render_sem_full_s11_api", "s10_in_s11"], "Import RX.Spec.CstFull. Import RX.Spec.CstFullS6. Import RX.Spec.CstFullS10. Import RX.Spec.CstFullS11. Import RX.Proofs.CstNsView. Import RX.Proofs.ApiView. Import RX.Proofs.CstFullS11Main."),
           ("CstFullS10Main.v", ["parse_render_sem_full_s10", "parse_render_sem_full_s10_api", "s9_in_s10"], "Import RX.Spec.CstFull. Import RX.Spec.CstFullS6. Import RX.Spec.CstFullS9. Import RX.Spec.CstFullS10. Import RX.Proofs.CstNsView. Import RX.Proofs.ApiView. Import RX.Proofs.CstFullS10Main."),
           ("CstFullS9Main.v", ["parse_render_sem_full_s9", "s8_in_s9"], "Import RX.Spec.CstFull. Import RX.Spec.CstFullS6. Import RX.Spec.CstFullS8. Import RX.Spec.CstFullS9. Import RX.Proofs.CstNsView. Import RX.Proofs.ApiView. Import RX.Proofs.CstFullS9Main."),
           ("CstFullS8Main.v", ["parse_render_sem_full_s8", "s7_in_s8"], "Import RX.Spec.CstFull. Import RX.Spec.CstFullS6. Import RX.Spec.CstFullS7. Import RX.Spec.CstFullS8. Import RX.Proofs.CstNsView. Import RX.Proofs.ApiView. Import RX.Proofs.CstFullS8Main."),
           ("CstUMain.v", ["render_valid_utf8", "parse_render_sem_u", "layout_insensitive_u"]),
           ("CstFullS6Main.v", ["parse_render_sem_full_s6", "hoist_prolog_insensitive_full_s6", "s4_in_s6"], "Import RX.Spec.CstFull. Import RX.Spec.CstFullS4. Import RX.Spec.CstFullS6. Import RX.Proofs.CstNsView. Import RX.Proofs.CstFullS6Main."),
           ("CstFullS6Embed5.v", ["s5_in_s6"], "Import RX.Spec.CstFull. Import RX.Spec.CstFullS5. Import RX.Spec.CstFullS6. Import RX.Proofs.CstFullS6Main. Import RX.Proofs.CstFullS6Embed5."),
           ("CstFullS5.v", ["parse_render_sem_full_s5", "prolog_insensitive_full_s5"], "Import RX.Spec.CstFull. Import RX.Spec.CstFullS5. Import RX.Proofs.CstNsView. Import RX.Proofs.CstFullMain. Import RX.Proofs.CstFullS5."),
           ("LexerProofs.v", ["parse_comment_post", "parse_pi_post", "parse_cdata_post", "parse_text_post", "parse_close_element_post",
                              "parse_doctype_tokens", "parse_misc_tokens", "parse_element_tokens"], "Local Notation token := Tokenizer.token.", "forall (text : bytes),"),
           ("RejectProofs.v", ["ok_document_shape", "ok_no_text_before_root"], "Local Notation token := Tokenizer.token.")]),
 "C04": dict(
   intro="C04 -- character data is decoded per XML 1.0, one text node per run.\n   (1) the text machine (TextBuffer with the pending-CR flag, as driven by process_text) produces,\n   for every run of literal bytes and referenced characters, the decoding of Spec/Text.v; a referenced\n   character never encodes to zero bytes (encode_utf8_nonempty); the same on the model's own loop;\n   (2) CDATA sections are normalised like literals; (3) any number of fragments of one run end up in\n   exactly one Text node holding their concatenation (after_text protocol); (4) whole documents, fragment of\n   Spec/CstText.v (text runs made of literals incl. CR / CR LF, character references, predefined references and\n   CDATA sections; ASCII source, no DOCTYPE / namespaces): every rendering parses to exactly its meaning, where a\n   run denotes ONE Text node holding decode_chunks of its pieces (Spec/Text.v) -- parse_render_sem_text -- so\n   documents that differ only in how a string is spelled (&amp; / &#38; / CDATA) give the same tree.",
   imports=["From RX.Spec Require Import Text.", "From RX.Spec Require Cst CstText.", "From RX.Proofs Require Import TextMachine TextMerge CstMain CstTextMain."],
   groups=[("CstTextMain.v", ["parse_render_sem_text", "piece_choice_insensitive"], "Module T := CstText."),
           ("TextMachine.v", ["text_chunks_decode_partial", "encode_utf8_nonempty", "text_chunks_in_entity", "cdata_decode", "run_text_empty_iff"]),
           ("TextMerge.v", ["fragments_merge", "fragments_merge_ranges", "append_text_continuation", "single_fragment_storage",
                            "reset_after_text_safe", "process_cdata_spec"])]),
 "C05": dict(
   intro="C05 -- attributes: exact set, source order, values normalised per XML 1.0 3.3.3.\n   (1) the attribute machine (push_from_attr / push_raw as driven by _normalize_attribute) against\n   Spec/Text.v, at top level and inside entity values, and on the model's normalize_attribute;\n   (2) a namespace declaration is never stored as an attribute, attributes are stored in source order,\n   nothing dropped or duplicated, expanded names pairwise distinct, namespace indices as resolved;\n   (3) whole documents, fragment of Spec/CstText.v (attribute values made of literals incl. TAB / LF / CR / CR LF,\n   character and predefined references): every rendering parses to the element's attributes in source order with\n   values norm_attr_chunks of their pieces (parse_render_sem_text; view / sem list the attributes of every element).",
   imports=["From RX.Spec Require Import Text.", "From RX.Spec Require Cst CstText.", "From RX.Proofs Require Import TextMachine AttrListProofs CstMain CstTextMain."],
   groups=[("CstTextMain.v", ["parse_render_sem_text", "layout_insensitive_text"], "Module T := CstText."),
           ("TextMachine.v", ["attr_chunks_normalise", "attr_chunks_total_top", "attr_chunks_in_entity"]),
           ("AttrListProofs.v", ["process_attribute_classifies", "resolve_attributes_in_order", "resolve_attributes_unique",
                                 "resolve_attributes_unique_eqb", "resolve_attributes_namespace"])]),
 "C06": dict(
   intro="C06 -- names and in-scope namespaces: the element's namespace range denotes\n   Spec.scope_of (own declarations, then inherited bindings not re-declared); names resolve to the\n   first binding of their prefix; duplicate declarations are detected; the 2^16 limit.\n   (scopes_refine carries the hypothesis that the parent's scope has unique prefixes, which\n   scope_prefixes_unique re-establishes.)  Whole documents on the fragment of Spec/CstNs.v (the Cst fragment with\n   qualified names and xmlns / xmlns:p declarations interleaved with attributes; empty URIs, xml:lang, p:xmlns\n   attributes included): every rendering of a namespace-well-formed abstract document parses to exactly its\n   meaning, where the tag's namespace, each attribute's namespace and each element's in-scope list\n   (Node::namespaces()) are computed ONLY with Spec/Scope.v from the WRITTEN declarations and the parent's scope\n   (parse_render_sem_ns: view = Some (sem c)).  Two resource hypotheses, stated with spec functions: at most 65535\n   distinct declared bindings (the documented limit) and a namespace table within u32::MAX entries.\n   The same over Unicode (Spec/CstFull.v, stage S1: prefixes, local names, URIs, values and content are scalar values of\n   the 5th-edition classes rendered in UTF-8): parse_render_sem_full_s1; stage S2 adds CstText's pieces everywhere:\n   attribute values, text runs and the VALUES OF NAMESPACE DECLARATIONS are lists of literals (incl. CR), character and\n   predefined references (CDATA in text) -- a URI supplied through references (xmlns:p='&#117;rn:x') declares the\n   normalised URI, and the reserved-name rules are decided on it: parse_render_sem_full_s2, spelling_insensitive_full_s2;\n   stage S3 adds an internal DTD subset with character-data entities (Unicode names and values, nested, first declaration\n   wins) referenced from content, attribute values and NAMESPACE DECLARATION VALUES (a URI supplied through an entity):\n   parse_render_sem_full_s3, hoist_insensitive_full_s3.  S1 c S2 c S3; this is the single statement that covers\n   C03..C07 together on the largest fragment.  Rejection half (NsRejMain.v, on Spec/CstNs.v): for syntactically\n   well-formed documents parse succeeds IFF the namespace conditions N1-N7 hold (ns_decide), and the first violated\n   rule (first_violation, NsRejDefs.v) determines the error variant and payload (ns_violation_variant).",
   imports=["From RX.Spec Require Scope.", "From RX.Spec Require Cst CstNs CstU CstFull.", "From RX.Proofs Require Import ScopeProofs ScopeParse CstNsView CstNsMain CstFullMain CstFullS1 CstFullS2 CstFullS3 NsRejDefs NsRejBuild NsRejMain.", "From RX.Spec Require CstFullS4 CstFullS6.", "From RX.Proofs Require CstFullS4Main CstFullS6Main CstFullRejSem CstFullRejTrace CstFullRejDoc CstFullRejMain CstFullNsRejMain.", "From RX.Spec Require CstFullS11.", "From RX.Proofs Require CstFullS11Main CstFullRejS11Sem CstFullRejS11Doc CstFullRejS11Main CstFullRejS11NsMain NsRejDefs NsRejBuild."],
   groups=[("ScopeParse.v", ["parse_scopes_ok", "parse_names_ok"]),
           ("ScopeProofs.v", ["scopes_refine", "scope_prefixes_unique", "names_resolve", "unknown_prefix_rejected", "unknown_prefix_never_ok",
                              "duplicate_declaration_rejected", "push_ns_appends", "push_ns_limit", "ns_values_limit_is"]),
           ("CstFullS1.v", ["parse_render_sem_full_s1", "layout_insensitive_full_s1"], "Import CstFull."),
           ("CstFullS2.v", ["parse_render_sem_full_s2", "spelling_insensitive_full_s2"], "Import CstFull."),
           ("CstFullS3.v", ["parse_render_sem_full_s3", "hoist_insensitive_full_s3"], "Import CstFull."),
           ("CstFullS4Main.v", ["parse_render_sem_full_s4"], "Import RX.Spec.CstFull. Import RX.Spec.CstFullS4. Import RX.Proofs.CstFullS4Main."),
           ("CstNsMain.v", ["parse_render_sem_ns", "layout_insensitive_ns"], "Import CstNs."),
           ("NsRejMain.v", ["ns_decide", "ns_violation_variant"], "Import CstNs."),
           ("CstFullRejS11NsMain.v", ["decide_full_s11"], "Import RX.Spec.CstFull. Import RX.Spec.CstFullS4. Import RX.Spec.CstFullS6. Import RX.Spec.CstFullS11. Import RX.Proofs.CstNsView. Import RX.Proofs.CstFullS11Main. Import RX.Proofs.NsRejDefs. Import RX.Proofs.NsRejBuild. Import RX.Proofs.CstFullRejSem. Import RX.Proofs.CstFullRejS11Sem. Import RX.Proofs.CstFullRejTrace. Import RX.Proofs.CstFullRejS11Doc. Import RX.Proofs.CstFullRejMain. Import RX.Proofs.CstFullRejS11Main. Import RX.Proofs.CstFullNsRejMain. Import RX.Proofs.CstFullRejS11NsMain."),
           ("CstFullNsRejMain.v", ["ns_decide_full_s6_partial", "ns_violation_variant_full_s6", "decide_full_s6"], "Import RX.Spec.CstFull. Import RX.Spec.CstFullS4. Import RX.Spec.CstFullS6. Import RX.Proofs.CstNsView. Import RX.Proofs.CstFullS6Main. Import RX.Proofs.NsRejDefs. Import RX.Proofs.NsRejBuild. Import RX.Proofs.CstFullRejSem. Import RX.Proofs.CstFullRejTrace. Import RX.Proofs.CstFullRejDoc. Import RX.Proofs.CstFullRejMain. Import RX.Proofs.CstFullNsRejMain.")]),
 "C09": dict(
   intro="C09 -- entity expansion is bounded yet not over-restricted.  (1) the loop detector is sound and complete\n   w.r.t. the trace specification, with the documented numbers (10, 255) against constants regenerated from the\n   source; (2) the node budget over a whole parse: a successfully parsed document has at most\n   1 + len + 256 * len * amp nodes (hence <= 256 * (len + 1) * (amp + 1)), for every input and all options;\n   without a DOCTYPE at most len + 1 nodes; (3) the byte budget: the text of all Text nodes plus all attribute\n   values (text_len + value_len, BudgetBytesBuild.v) is at most len + 256 * len * amp bytes.  (5) Whole documents on the\n   fragment of Spec/CstEnt.v: for a document whose only possible defect is the expansion (wf_syntax, and ginline = Some:\n   no undeclared name, no markup reaching an attribute), the detector limits DECIDE the outcome -- within 10 / 255 it parses\n   to its inlined meaning, otherwise Err EntityReferenceLoop (limits_decide_ent) -- hence a reference cycle reachable\n   from the body (cyclic_doc, defined on the declaration graph with first declarations), a reference path of 11 or more\n   names, or more than 255 expansions below one top-level reference are each rejected with EntityReferenceLoop.",
   imports=["From RX.Spec Require Import Detector.", "From RX.Proofs Require Import DetectorProofs OptionsParam OptionsBuild OptionsMain OptionsDtd BudgetStream BudgetTok BudgetBuild BudgetAcct BudgetMain BudgetNoEnt BudgetBytesBuild BudgetBytesTok BudgetBytesAcct BudgetBytesMain CycleStream CycleContent CycleAttr CycleEntered.", "From RX.Spec Require Cst CstText CstEnt.", "From RX.Proofs Require Import CstMain CstTextMain CstEntMain CstEntRejSem CstEntRejTrace CstEntRejMain.", "From RX.Spec Require CstFull CstFullS4 CstFullS6.", "From RX.Proofs Require CstNsView CstFullS6Main CstFullRejSem CstFullRejTrace CstFullRejDoc CstFullRejMain.", "From RX.Spec Require CstFullS11.", "From RX.Proofs Require CstFullS11Main CstFullRejS11Sem CstFullRejS11Doc CstFullRejS11Main CstFullRejS11NsMain NsRejDefs NsRejBuild."],
   groups=[("BudgetMain.v", ["expansion_budget_nodes", "expansion_budget_tight"]), ("BudgetNoEnt.v", ["budget_no_entities"]),
           ("BudgetBytesMain.v", ["expansion_budget_bytes", "expansion_budget_bytes_tight"]),
           ("CstEntRejMain.v", ["limits_decide_ent", "cycle_rejected_ent", "depth_exceeded_rejected_ent", "budget_exceeded_rejected_ent"], "Module E := CstEnt. Module T := CstText."),
           ("CstFullRejS11Main.v", ["limits_decide_full_s11", "cycle_rejected_full_s11"], "Import RX.Spec.CstFull. Import RX.Spec.CstFullS4. Import RX.Spec.CstFullS6. Import RX.Spec.CstFullS11. Import RX.Proofs.CstNsView. Import RX.Proofs.CstFullS11Main. Import RX.Proofs.CstFullRejSem. Import RX.Proofs.CstFullRejS11Sem. Import RX.Proofs.CstFullRejTrace. Import RX.Proofs.CstFullRejS11Doc. Import RX.Proofs.CstFullRejMain. Import RX.Proofs.CstFullRejS11Main."),
           ("CstFullRejMain.v", ["limits_decide_full_s6", "cycle_rejected_full_s6", "depth_exceeded_rejected_full_s6", "budget_exceeded_rejected_full_s6"], "Import RX.Spec.CstFull. Import RX.Spec.CstFullS4. Import RX.Spec.CstFullS6. Import RX.Proofs.CstNsView. Import RX.Proofs.CstFullS6Main. Import RX.Proofs.CstFullRejSem. Import RX.Proofs.CstFullRejTrace. Import RX.Proofs.CstFullRejDoc. Import RX.Proofs.CstFullRejMain."),
           ("DetectorProofs.v", ["enter_agrees_model", "detector_sound", "detector_complete", "limits_bound_depth", "limits_bound_nested",
                                 "documented_limits", "chain_accepted_iff", "fan_accepted_iff", "flat_accepted"])]),
 "C10": dict(
   intro="C10 -- every read operation on a parsed document is total: for every successfully parsed document\n   (valid UTF-8 input, limit fitting the u32 field), every node id below the node count and every argument,\n   each accessor, axis, element variant, iterator constructor, name lookup, text / tail, root_element,\n   get_node (any id) and text_pos_at (any offset) of the model's API returns Ok -- it reaches none of the\n   panic sites of the source (unwrap, expect, indexing, slicing) and its loops do not run out of fuel.",
   imports=["From RX.Spec Require Import Tree.", "From RX.Model Require Import Debug.", "From RX.Proofs Require Import ApiTotal PositionProofs DebugTotal StrictModel StrictApi Strict.", "From RX Require GeneratedDisplay.", "From RX.Model Require ErrDisplay.", "From RX.Proofs Require ErrDisplayProofs."],
   groups=[("ApiTotal.v", ["api_total", "api_total_doc"]), ("PositionProofs.v", ["text_pos_total_valid"]),
           ("DebugTotal.v", ["debug_total", "debug_stack_bounded"]),
           ("Strict.v", ["site_debug_depth_unreachable"]), ("StrictApi.v", ["site_descendants_unreachable"]),
           ("ErrDisplayProofs.v", ["display_table_complete", "display_nonempty"], "Import RX.GeneratedDisplay. Import RX.Model.ErrDisplay. Import RX.Proofs.ErrShiftBase. Import RX.Proofs.ErrDisplayProofs. Local Open Scope list_scope.")]),
 "C11": dict(
   intro="C11 -- navigation and iterators agree with the tree: every parsed document is an arena (Arena' d t:\n   the pre-order encoding of a well-formed document tree, NavParse.v), and on every such arena (Arena', the form parse yields: up to u32::MAX nodes) each link accessor, axis, element variant, text/tail, root_element\n   and iterator of the model's API is the corresponding function of t, and the double-ended iterators\n   implement the deque specification for every sequence of operations.",
   imports=["From RX.Spec Require Import Tree Deque.", "From RX.Proofs Require Import NavEnc NavLinks NavIter NavAxes NavElem NavParse.", "From RX.Proofs Require ApiViewAcc ApiView ApiViewProofs.", "From RX.Spec Require CstFull CstFullS6 CstFullS7.", "From RX.Proofs Require CstNsView ApiUserCore ApiUserAcc ApiUserS7."],
   groups=[("ApiViewProofs.v", ["api_view_agrees", "api_view_defined"], "Import RX.Proofs.ApiViewAcc. Import RX.Proofs.ApiView. Import RX.Proofs.ApiViewProofs."),
           ("ApiUserS7.v", ["user_nodes", "user_root_element", "user_children", "user_text", "user_comment", "user_pi"], "Import RX.Spec.CstFull. Import RX.Spec.CstFullS6. Import RX.Spec.CstFullS7. Import RX.Proofs.CstNsView. Import RX.Proofs.ApiViewAcc. Import RX.Proofs.ApiView. Import RX.Proofs.ApiUserCore. Import RX.Proofs.ApiUserAcc. Import RX.Proofs.ApiUserS7.", "CHECK"),
           ("NavLinks.v", ["table_ids", "nav_parent'", "nav_has_children'", "nav_first_child'", "nav_last_child'", "nav_prev_sibling'", "nav_next_sibling'", "nav_descendants'"]),
           ("NavIter.v", ["nav_children'", "children_deque'", "slice_deque"]),
           ("NavAxes.v", ["nav_ancestors'", "nav_next_siblings'", "nav_prev_siblings'", "nav_first_children'", "nav_last_children'"]),
           ("NavParse.v", ["parse_default_arena", "parse_arena'", "parse_ids_dense'", "parse_descendants_preorder'", "parse_children_rev'",
                           "parse_root_element'", "parse_nav_total'"]),
           ("NavElem.v", ["nav_has_siblings'", "nav_element_variants_exclude_self'", "nav_parent_element'", "nav_prev_sibling_element'",
                          "nav_next_sibling_element'", "nav_first_element_child'", "nav_last_element_child'", "nav_root_element'",
                          "nav_root_element_none'", "nav_text_storage'", "nav_tail_storage'"])]),
 "C12": dict(
   intro="C12 -- name-based lookups are the first match of the enumerated attributes / namespaces.  The user_* theorems\n   (Proofs/ApiUserS7.v) chain this with the capstone: for a rendered S7 document each lookup on the k-th node returns what the\n   WRITTEN document says (first attribute with that expanded name, first binding of the in-scope list computed by Spec/Scope.v).",
   imports=["From RX.Proofs Require Import LookupProofs.", "From RX.Spec Require CstFull CstFullS6 CstFullS7.", "From RX.Proofs Require CstNsView ApiViewAcc ApiView ApiUserCore ApiUserAcc ApiUserS7."],
   groups=[("ApiUserS7.v", ["user_tag_name", "user_has_tag_name", "user_attribute", "user_has_attribute", "user_lookup_namespace_uri", "user_default_namespace", "user_lookup_prefix"], "Import RX.Spec.CstFull. Import RX.Spec.CstFullS6. Import RX.Spec.CstFullS7. Import RX.Proofs.CstNsView. Import RX.Proofs.ApiViewAcc. Import RX.Proofs.ApiView. Import RX.Proofs.ApiUserCore. Import RX.Proofs.ApiUserAcc. Import RX.Proofs.ApiUserS7.", "CHECK"),
           ("LookupProofs.v", ["attribute_node_first_match", "has_attribute_iff", "attribute_is_value_of_node", "bare_name_no_namespace",
                               "has_tag_name_spec", "has_tag_name_non_element", "lookup_namespace_uri_first", "default_namespace_is_lookup_none",
                               "lookup_prefix_xml", "lookup_prefix_first", "attr_eqb_spec"])]),
 "C13": dict(
   intro="C13 -- source ranges are valid and designate the construct they belong to.  For every parsed document\n   (entity-expanded nodes included): every node and attribute range is a valid slice of the input (start <=\n   end <= len, char boundaries), the root range is the whole input, every attribute lies strictly inside its\n   element's range with its qname sub-range inside it; for documents without a DOCTYPE a child's range lies\n   within its parent's and a node starts after its previous sibling ends.  Shape clauses, from the lexer\n   post-conditions: the range of a comment token is exactly '<!--' text '-->', of a PI token '<?' target ...\n   '?>', a start tag runs from '<' to its '>' and the name follows the '<', an end tag from '</' to '>';\n   text / CDATA ranges are the token's source.  Attribute sub-ranges (below the documented saturation limits):\n   the qname sub-range ends where the local name ends, the value sub-range is delimited by the same quote on\n   both sides, ends one byte before the attribute's end, equals a borrowed value's slice, and only whitespace and\n   one '=' separate it from the qname.  Shift: prepending whitespace to an input that starts with neither a BOM nor\n   an XML declaration yields the same document with every non-root range moved by exactly that length.\n   Whole documents on the fragment of Spec/Cst.v: the range of every node is exactly the span of its construct in\n   the rendering (spans c, CstRangeDefs.v: an element from its '<' to the '>' of its end or empty-element tag), the\n   root range is the whole input, attribute range / qname / value sub-ranges are exactly the written name-to-quote,\n   name and between-the-quotes spans (attr_spans c); hence the slice shapes C13 names (EXTRA below).",
   imports=["From RX.Proofs Require Import LexerProofs NoPanicTokenizer RangeTokenizer RangeArena RangeInv RangeBuilder RangeParse RangeAttrLocal RangeAttrTok RangeAttrParse RangeShiftBase RangeShiftStream RangeShiftTokenizer RangeShiftBuilder RangeShiftParse RangeShiftFinal CstRangeDefs CstRangeMain CstRangeTDefs CstRangeTMain CstEntDoc CstRangeEDefs CstRangeEMain CstRangeEValid.", "From RX.Spec Require Cst CstText CstEnt CstFull CstFullS5.", "From RX.Proofs Require CstRangeFDefs CstRangeFS2 CstRangeGDefs CstRangeGS3 CstRangeG5Defs CstRangeG5.", "From RX.Spec Require CstFullS4 CstFullS6.", "From RX.Proofs Require CstRangeG6Defs CstRangeG6 ErrShiftSubFinal ErrShiftProlog.", "From RX.Spec Require CstFullS10 CstFullS11.", "From RX.Proofs Require CstRangeG10 CstRangeG11."],
   groups=[("RangeParse.v", ["parse_ranges_valid", "parse_attr_ranges_inside", "parse_ranges_nest", "parse_ranges_siblings"]),
           ("RangeAttrParse.v", ["parse_attr_subranges"]), ("RangeShiftFinal.v", ["parse_shift_whitespace_partial"]),
           ("CstRangeMain.v", ["parse_render_ranges", "parse_render_attr_ranges"]),
           ("CstRangeTMain.v", ["parse_render_ranges_t", "parse_render_attr_ranges_t"], "Module T := CstText."),
           ("CstRangeEMain.v", ["parse_render_ranges_e"], "Module E := CstEnt."), ("CstRangeEValid.v", ["ranges_valid_e"], "Module E := CstEnt."),
           ("CstRangeFS2.v", ["parse_render_ranges_f2", "parse_render_attr_ranges_f2"], "Import RX.Spec.CstFull. Import RX.Proofs.CstRangeFDefs. Import RX.Proofs.CstRangeFS2."),
           ("CstRangeGS3.v", ["parse_render_ranges_f3"], "Import RX.Spec.CstFull. Import RX.Proofs.CstRangeFDefs. Import RX.Proofs.CstRangeGDefs. Import RX.Proofs.CstRangeGS3."),
           ("CstRangeG5.v", ["parse_render_ranges_f5", "parse_render_attr_ranges_f5"], "Import RX.Spec.CstFull. Import RX.Spec.CstFullS5. Import RX.Proofs.CstRangeFDefs. Import RX.Proofs.CstRangeFS2. Import RX.Proofs.CstRangeG5Defs. Import RX.Proofs.CstRangeG5."),
           ("CstRangeG11.v", ["parse_render_ranges_f11", "parse_render_attr_ranges_f11"], "Import RX.Spec.CstFull. Import RX.Spec.CstFullS4. Import RX.Spec.CstFullS6. Import RX.Spec.CstFullS11. Import RX.Proofs.CstRangeFDefs. Import RX.Proofs.CstRangeFS2. Import RX.Proofs.CstRangeG6Defs. Import RX.Proofs.CstRangeG11."),
           ("CstRangeG10.v", ["parse_render_ranges_f10", "parse_render_attr_ranges_f10"], "Import RX.Spec.CstFull. Import RX.Spec.CstFullS4. Import RX.Spec.CstFullS6. Import RX.Spec.CstFullS10. Import RX.Proofs.CstRangeFDefs. Import RX.Proofs.CstRangeFS2. Import RX.Proofs.CstRangeG6Defs. Import RX.Proofs.CstRangeG10."),
           ("CstRangeG6.v", ["parse_render_ranges_f6", "parse_render_attr_ranges_f6"], "Import RX.Spec.CstFull. Import RX.Spec.CstFullS4. Import RX.Spec.CstFullS6. Import RX.Proofs.CstRangeFDefs. Import RX.Proofs.CstRangeFS2. Import RX.Proofs.CstRangeG6Defs. Import RX.Proofs.CstRangeG6."),
           ("ErrShiftProlog.v", ["ranges_move_with_prolog_whitespace"], "Import RX.Proofs.ErrShiftSubFinal. Import RX.Proofs.ErrShiftProlog."),
           ("RangeTokenizer.v", ["tokenizer_token_ranges"], "Local Notation token := Tokenizer.token."),
           ("LexerProofs.v", ["parse_comment_post", "parse_pi_post", "parse_cdata_post", "parse_text_post", "parse_element_tokens",
                              "parse_close_element_post"], "Local Notation token := Tokenizer.token.", "forall (text : bytes),")]),
 "C14": dict(
   intro="C14 -- text positions and error reports: text_pos_at is total on valid UTF-8, clamps, counts\n   rows by LF and columns in characters, stays in bounds and moves with inserted line breaks / spaces;\n   every Err returned by parse carries the position of an offset inside the input (or is one of the\n   seven position-less variants, which report 1:1), hence row / column are within the input.  Shift over a whole\n   parse: whitespace put in front of a document (no BOM / declaration) leaves the outcome unchanged -- an Ok result is\n   the same document with shifted offsets, an Err has the same variant and payload and is reported at the same place of\n   the document (offset + k), i.e. k spaces move the column of a row-1 error by k, k line breaks move the row by k.\n   The same for whitespace inserted at any insertion point of the prolog before a DOCTYPE (after the BOM / XML\n   declaration, after each comment or PI of the first Misc run; insertion_point is defined operationally and is\n   decidable by insertion_point_b): parse_err_shift_mid_partial, parse_ok_shift_mid_partial and the spaces / lines\n   corollaries (an error on the insertion point's row moves by k columns; k line breaks move the row by k).  And for\n   insertion points AFTER a DOCTYPE (between the DOCTYPE and the root, after later comments / PIs) when the DOCTYPE\n   records no general entity (parameter / external entities, ELEMENT / ATTLIST / NOTATION, comments and PIs inside the\n   subset are allowed): parse_err_shift_dtd, parse_ok_shift_dtd.",
   imports=["From RX.Proofs Require Import PositionProofs ErrPosStream ErrPosTokenizer ErrPosParse ErrPayload RangeShiftBuilder ErrShiftBase ErrShiftFinal ErrShiftMidCore ErrShiftMidFinal ErrShiftDtdFinal ErrShiftEntFinal ErrShiftSubCont ErrShiftSubFinal ErrShiftProlog.", "From RX Require GeneratedDisplay.", "From RX.Model Require ErrDisplay.", "From RX.Proofs Require ErrDisplayProofs.", "From RX Require GeneratedErrors.", "From RX.Proofs Require ErrorEnumTie."],
   groups=[("PositionProofs.v", ["text_pos_total_valid", "text_pos_clamped", "text_pos_on_boundary", "text_pos_bounds", "text_pos_shift_lines_valid",
                                 "text_pos_shift_spaces_valid", "text_pos_shift_lines_gen", "text_pos_shift_spaces_gen"]),
           ("ErrShiftFinal.v", ["parse_err_shift", "parse_ok_shift", "parse_err_shift_spaces", "parse_err_shift_lines"]),
           ("ErrShiftMidFinal.v", ["parse_err_shift_mid_partial", "parse_ok_shift_mid_partial", "parse_err_shift_mid_spaces", "parse_err_shift_mid_lines"]),
           ("ErrShiftDtdFinal.v", ["parse_err_shift_dtd", "parse_ok_shift_dtd", "parse_err_shift_dtd_spaces", "parse_err_shift_dtd_lines"]),
           ("ErrShiftEntFinal.v", ["parse_err_shift_ent", "parse_ok_shift_ent", "parse_err_shift_ent_spaces", "parse_err_shift_ent_lines"]),
           ("ErrShiftSubFinal.v", ["parse_err_shift_sub", "parse_ok_shift_sub", "parse_err_shift_sub_spaces", "parse_err_shift_sub_lines", "parse_err_shift_prolog"]),
           ("ErrShiftProlog.v", ["parse_ok_shift_prolog"]),
           ("ErrPosTokenizer.v", ["tokenizer_errors_positioned"], "Local Notation token := Tokenizer.token."),
           ("ErrPosParse.v", ["token_errors_positioned", "parse_errors_positioned", "parse_error_in_bounds"]),
           ("ErrPayload.v", ["parse_error_payload_from_source"]),
           ("ErrDisplayProofs.v", ["display_table_complete", "display_pos", "display_positionless", "read_show_pos", "display_payload"], "Import RX.GeneratedDisplay. Import RX.Model.ErrDisplay. Import RX.Proofs.ErrShiftBase. Import RX.Proofs.ErrDisplayProofs. Local Open Scope list_scope."),
           ("ErrorEnumTie.v", ["error_enum_tie", "error_enum_complete", "error_pos_tie", "pos_field_last"], "Import RX.GeneratedErrors. Import RX.Model.ErrDisplay. Import RX.Proofs.ErrorEnumTie. Local Open Scope list_scope.")]),
 "C15": dict(
   intro="C15 -- nodes_limit is a hard, monotone cap on tree size: a successful parse has at most L nodes;\n   if the parse with a larger limit succeeds with N nodes then every L >= N gives the identical document\n   and every L < N gives Err NodesLimitReached; if it fails, every smaller limit fails too.",
   imports=["From RX.Proofs Require Import OptionsParam OptionsBuild OptionsMain OptionsDtd."],
   groups=[("OptionsMain.v", ["limit_caps", "limit_above", "limit_below", "limit_error_persists"])]),
 "C16": dict(
   intro="C16 -- DTD processing is off by default and allow_dtd changes nothing else: the default options\n   are {allow_dtd = false; nodes_limit = u32::MAX} (read from the source by the translator); with\n   allow_dtd = false the result is Err DtdDetected or identical to the result with allow_dtd = true;\n   an input without the string '<!DOCTYPE' gives identical results; with allow_dtd = false no entity is ever\n   declared, and the total length of all text and attribute values (text_len + value_len, DefaultMain.v) of a\n   parsed document is at most the input length.  On the fragment of Spec/CstFullS5.v: a document WITH a DOCTYPE gives\n   Err DtdDetected under allow_dtd = false (dtd_refused_full), a document without one parses identically under both values\n   (no_dtd_any_option).",
   imports=["From RX.Proofs Require Import OptionsParam OptionsBuild OptionsMain OptionsDtd DefaultEntities DefaultTokenizer DefaultContent DefaultText DefaultMain.", "From RX.Proofs Require CstNsView CstFullMain CstFullS5.", "From RX.Spec Require CstFull CstFullS5."],
   groups=[("OptionsMain.v", ["default_options_are", "dtd_flag_relation"]), ("OptionsDtd.v", ["no_doctype_no_difference"]),
           ("DefaultEntities.v", ["no_entities_without_dtd"]), ("DefaultMain.v", ["content_le_input"]),
           ("CstFullS5.v", ["dtd_refused_full", "no_dtd_any_option"], "Import RX.Spec.CstFull. Import RX.Spec.CstFullS5. Import RX.Proofs.CstNsView. Import RX.Proofs.CstFullMain. Import RX.Proofs.CstFullS5.")]),
 "C18": dict(
   intro="C18 -- borrowed strings are slices of the input; undecoded content is not copied.  In the model a\n   borrowed string is an offset pair; every such pair in a parsed document is a valid slice of the input\n   (start <= end <= len, both on char boundaries), the only 'static strings are those of the xml\n   namespace, and the fast paths keep text / CDATA / attribute values borrowed.  Whole documents on the fragment of\n   Spec/Cst.v (parse_render_storage): every Text node and every attribute value is stored Borrowed with exactly the\n   span where it is written, and every name (tag, attribute, PI target, PI value, comment text) is the slice of its\n   written occurrence (shapes c / attr_spans c, CstRangeDefs.v).  On the fragment of Spec/CstText.v\n   (parse_render_storage_t; tshapes / tattr_spans in CstRangeTDefs.v): a run that is ONE literal without CR is Borrowed\n   with exactly its span; a run that is ONE CDATA section without CR is Borrowed with the span of its content; every other\n   run is Owned with the decoded text; an attribute value that is empty or one literal without TAB / LF / CR is Borrowed\n   with the span between the quotes, every other is Owned with the normalised value -- undecoded content is never copied.",
   imports=["From RX.Spec Require Cst.", "From RX.Spec Require CstText CstEnt.", "From RX.Proofs Require Import BorrowLocal BorrowTokenizer BorrowParse TextMerge CstRangeDefs CstRangeMain CstRangeTDefs CstRangeTMain CstEntDoc CstRangeEDefs CstRangeEMain.", "From RX.Spec Require CstFull CstFullS5.", "From RX.Proofs Require CstRangeFDefs CstRangeFS2 CstRangeG5Defs CstRangeG5.", "From RX.Spec Require CstFullS4 CstFullS6.", "From RX.Proofs Require CstRangeG6Defs CstRangeG6.", "From RX.Spec Require CstFullS10 CstFullS11.", "From RX.Proofs Require CstRangeG10 CstRangeG11."],
   groups=[("BorrowLocal.v", ["mk_slice_valid", "fast_path_text", "fast_path_attr", "fast_path_cdata"]),
           ("BorrowTokenizer.v", ["tokenizer_tokens_ok", "tokenizer_content_tokens_ok"], "Local Notation token := Tokenizer.token."),
           ("BorrowParse.v", ["token_preserves_borrows", "parse_borrows_ok", "static_only_xml"]),
           ("TextMerge.v", ["single_fragment_storage"]),
           ("CstRangeMain.v", ["parse_render_storage"]),
           ("CstRangeTMain.v", ["parse_render_storage_t"], "Module T := CstText."),
           ("CstRangeEMain.v", ["parse_render_storage_e"], "Module E := CstEnt."),
           ("CstRangeFS2.v", ["parse_render_storage_f2"], "Import RX.Spec.CstFull. Import RX.Proofs.CstRangeFDefs. Import RX.Proofs.CstRangeFS2."),
           ("CstRangeG5.v", ["parse_render_storage_f5"], "Import RX.Spec.CstFull. Import RX.Spec.CstFullS5. Import RX.Proofs.CstRangeFDefs. Import RX.Proofs.CstRangeFS2. Import RX.Proofs.CstRangeG5Defs. Import RX.Proofs.CstRangeG5."),
           ("CstRangeG11.v", ["parse_render_storage_f11"], "Import RX.Spec.CstFull. Import RX.Spec.CstFullS4. Import RX.Spec.CstFullS6. Import RX.Spec.CstFullS11. Import RX.Proofs.CstRangeFDefs. Import RX.Proofs.CstRangeFS2. Import RX.Proofs.CstRangeG6Defs. Import RX.Proofs.CstRangeG11."),
           ("CstRangeG10.v", ["parse_render_storage_f10"], "Import RX.Spec.CstFull. Import RX.Spec.CstFullS4. Import RX.Spec.CstFullS6. Import RX.Spec.CstFullS10. Import RX.Proofs.CstRangeFDefs. Import RX.Proofs.CstRangeFS2. Import RX.Proofs.CstRangeG6Defs. Import RX.Proofs.CstRangeG10."),
           ("CstRangeG6.v", ["parse_render_storage_f6"], "Import RX.Spec.CstFull. Import RX.Spec.CstFullS4. Import RX.Spec.CstFullS6. Import RX.Proofs.CstRangeFDefs. Import RX.Proofs.CstRangeFS2. Import RX.Proofs.CstRangeG6Defs. Import RX.Proofs.CstRangeG6.")]),
 "C19": dict(
   intro="C19 -- the `positions` feature only adds API surface: the fields it removes (NodeData.range,\n   AttributeData.range / qname_len / eq_len) are write-only for the parser.  A builder that strips them after\n   every token produces exactly the stripped document and the same errors, for the tokenizer run and for the\n   whole parse (parse_np_correct).  Determinism itself holds of the model by construction (it is a function)\n   and is decided for the code by the feature-set / repetition correspondence.  The premise -- which fields and\n   statements the features gate -- is regenerated from every cfg(feature = ..) attribute of the source (GeneratedFeatures.v)\n   and compared with what strip_* erases (Proofs/FeatureGates.v).",
   imports=["From RX.Proofs Require Import OptionsParam PositionsNonInterf.", "From RX Require GeneratedFeatures.", "From RX.Proofs Require FeatureGates."],
   groups=[("PositionsNonInterf.v", ["token_strip", "parse_document_strip", "parse_strip_invariant", "parse_strip_errors", "parse_np_correct"]),
           ("FeatureGates.v", ["gated_fields_are_the_stripped_ones", "strip_node_only_range", "strip_attr_only_positions", "gated_statements", "std_gates"],
            "Import RX.GeneratedFeatures. Import RX.Proofs.FeatureGates. Local Open Scope string_scope.")]),
 "C17": dict(
   intro="C17 -- node identity, equality, ordering, hashing: a node is the key (document address, id).",
   imports=["From RX.Proofs Require Import OrderProofs HashProofs."],
   groups=[("OrderProofs.v", ["node_eqb_iff", "node_cmp_eq_iff", "node_cmp_antisym", "node_cmp_trans", "node_cmp_same_doc", "node_cmp_groups",
                              "get_node_id_spec", "sorted_groups_documents"])]),
}


EXTRA = {
 "C17": """
(* the Hash clause: the words impl Hash for Node feeds the hasher (id, document address, NodeData address) are a
   function of the node key and determine it, for any placement of the node vector (nodes_base) and any positive
   element size: equal nodes hash equally under every Hasher; Proofs/HashProofs.v *)
Theorem C17_equal_nodes_hash_equally :
  forall (nodes_base : N -> N) (node_size : N) (x y : node_key),
  node_eqb x y = true -> hash_words nodes_base node_size x = hash_words nodes_base node_size y.
Proof. exact equal_nodes_hash_equally. Qed.
Print Assumptions C17_equal_nodes_hash_equally.

Theorem C17_hash_words_determine_node :
  forall (nodes_base : N -> N) (node_size : N) (x y : node_key),
  hash_words nodes_base node_size x = hash_words nodes_base node_size y -> node_eqb x y = true.
Proof. exact hash_words_determine_node. Qed.
Print Assumptions C17_hash_words_determine_node.

Theorem C17_data_addr_injective_in_document :
  forall (nodes_base : N -> N) (node_size : N), 0 < node_size ->
  forall d i j : N, data_addr nodes_base node_size (d, i) = data_addr nodes_base node_size (d, j) -> i = j.
Proof. exact data_addr_injective_in_document. Qed.
Print Assumptions C17_data_addr_injective_in_document.
""",
 "C13": """
(* the slice shapes of C13, for every node of every parsed rendering of the Cst fragment *)
Theorem C13_element_slice_shape :
  forall (c : Cst.doc) (opt : options) (d : document),
  Cst.wf_doc c = true -> N.of_nat (length (Cst.sem c)) < nodes_limit opt ->
  N.of_nat (length (Cst.render c)) <= u32_max -> parse (Cst.render c) opt = Ok d ->
  forall (id : N) (nd : node_data) (ns : option N) (local : slice) (ar nss : range),
  nth_N (d_nodes d) id = Some nd -> nd_kind nd = KElement ns local ar nss ->
  exists mid : list N,
    sub (Cst.render c) (fst (nd_range nd)) (snd (nd_range nd)) =
    [60] ++ slice_bytes (Cst.render c) local ++ mid ++ [62].
Proof. exact element_slice_shape. Qed.
Print Assumptions C13_element_slice_shape.

Theorem C13_comment_slice_shape :
  forall (c : Cst.doc) (opt : options) (d : document),
  Cst.wf_doc c = true -> N.of_nat (length (Cst.sem c)) < nodes_limit opt ->
  N.of_nat (length (Cst.render c)) <= u32_max -> parse (Cst.render c) opt = Ok d ->
  forall (id : N) (nd : node_data) (s : slice),
  nth_N (d_nodes d) id = Some nd -> nd_kind nd = KComment s ->
  sub (Cst.render c) (fst (nd_range nd)) (snd (nd_range nd)) =
  [60; 33; 45; 45] ++ slice_bytes (Cst.render c) s ++ [45; 45; 62].
Proof. exact comment_slice_shape. Qed.
Print Assumptions C13_comment_slice_shape.

Theorem C13_pi_slice_shape :
  forall (c : Cst.doc) (opt : options) (d : document),
  Cst.wf_doc c = true -> N.of_nat (length (Cst.sem c)) < nodes_limit opt ->
  N.of_nat (length (Cst.render c)) <= u32_max -> parse (Cst.render c) opt = Ok d ->
  forall (id : N) (nd : node_data) (target : slice) (value : option slice),
  nth_N (d_nodes d) id = Some nd -> nd_kind nd = KPI target value ->
  exists mid : list N,
    sub (Cst.render c) (fst (nd_range nd)) (snd (nd_range nd)) =
    [60; 63] ++ slice_bytes (Cst.render c) target ++ mid ++ [63; 62].
Proof. exact pi_slice_shape. Qed.
Print Assumptions C13_pi_slice_shape.

Theorem C13_text_slice_shape :
  forall (c : Cst.doc) (opt : options) (d : document),
  Cst.wf_doc c = true -> N.of_nat (length (Cst.sem c)) < nodes_limit opt ->
  N.of_nat (length (Cst.render c)) <= u32_max -> parse (Cst.render c) opt = Ok d ->
  forall (id : N) (nd : node_data) (st : storage),
  nth_N (d_nodes d) id = Some nd -> nd_kind nd = KText st ->
  exists s : slice, st = Borrowed (SIn s) /\\ (sl_start s, sl_end s) = nd_range nd.
Proof. exact text_slice_shape. Qed.
Print Assumptions C13_text_slice_shape.
""",
 "C09": """
(* (4) reference cycles end in EntityReferenceLoop.  S is any set of entity names that is CLOSED: the first
   declaration of each member has a value  plain & m ; plain [< ...]  with m again in S (CycleContent.v:
   closed / value_into; names ASCII, m not one of the five predefined names).  Then a text token that
   reaches a member of S -- directly, or through any entity that leads into S -- fails with
   EntityReferenceLoop: never Ok, never another error, at any detector depth and count.  app_ok c says the
   text node for the plain text before the reference can be appended (otherwise NodesLimitReached comes
   first).  The same for attribute values.  Whole-document instances: Proofs/CycleExamples.v. *)
Theorem C09_cycle_in_content_token :
  forall (text : bytes) (es : list entity) (S : bytes -> Prop),
  closed text es S ->
  forall (t : slice) (r : N * N) (c : context) (pre m mid : list N),
  sl_start t = fst r -> sl_end t = snd r -> fst r <= snd r -> snd r <= tlen text ->
  sub text (fst r) (snd r) = pre ++ 38 :: m ++ 59 :: mid ->
  plain pre -> ascii_name m -> predefined_b m = false -> S m ->
  is_boundary text (fst r + blen pre + blen m + 2) = true ->
  c_entities c = es -> app_ok c ->
  exists p : textpos, Parse.token text (TText t r) c = Err (EntityReferenceLoop p).
Proof. exact cycle_in_content_token. Qed.
Print Assumptions C09_cycle_in_content_token.

Theorem C09_cycle_entered :
  forall (text : bytes) (es : list entity) (S : bytes -> Prop),
  closed text es S ->
  forall (lvl : nat) (c : context) (v : slice) (s0 : Stream.stream),
  (entity_levels <= lvl)%nat -> value_into text S v -> c_entities c = es -> app_ok c ->
  stream_from_substr text (sl_start v) (sl_end v) = Ok s0 ->
  exists p : textpos, parse_content_lvl text lvl s0 c = Err (EntityReferenceLoop p).
Proof. exact cycle_entered. Qed.
Print Assumptions C09_cycle_entered.

Theorem C09_cycle_in_content_entered :
  forall (text : bytes) (es : list entity) (S : bytes -> Prop) (lvl : nat) (t : slice)
         (r : N * N) (c : context) (pre : list N) (n : bytes) (mid : list N) (e : entity),
  closed text es S -> find_entity text es n = Some e -> value_into text S (en_value e) ->
  (entity_levels <= lvl)%nat ->
  sl_start t = fst r -> sl_end t = snd r -> fst r <= snd r -> snd r <= tlen text ->
  sub text (fst r) (snd r) = pre ++ 38 :: n ++ 59 :: mid ->
  plain pre -> ascii_name n -> predefined_b n = false ->
  is_boundary text (fst r + blen pre + blen n + 2) = true ->
  c_entities c = es -> app_ok c ->
  exists p : textpos,
    process_text_with text (parse_content_lvl text lvl) t r c = Err (EntityReferenceLoop p).
Proof. exact cycle_in_content_entered. Qed.
Print Assumptions C09_cycle_in_content_entered.

Theorem C09_cycle_in_normalize_attribute :
  forall (text : bytes) (es : list entity) (S : bytes -> Prop),
  attr_closed text es S ->
  forall (v : slice) (c : context),
  attr_value_into text S v -> c_entities c = es ->
  exists p : textpos, normalize_attribute text v c = Err (EntityReferenceLoop p).
Proof. exact cycle_in_normalize_attribute. Qed.
Print Assumptions C09_cycle_in_normalize_attribute.
""",
 "C04": """
(* the same, on the model's own loop: for a text token whose chunks (as read by parse_next_chunk)
   contain no general entity reference, process_text appends exactly one text fragment, the
   decoding of the chunks *)
Theorem C04_process_text_with_decode_top :
  forall (text : bytes) (pc : Stream.stream -> context -> res (Stream.stream * context))
         (t : slice) (r : N * N) (c : context) (s0 : Stream.stream) (cs : list chunk),
  existsb (fun x => (x =? 38) || (x =? 13)) (slice_bytes text t) = true ->
  stream_from_substr text (fst r) (snd r) = Ok s0 ->
  reads text (c_entities c) s0 cs ->
  (0 <? ld_depth (c_ld c)) = false ->
  process_text_with text pc t r c = OutOfFuel \\/
  process_text_with text pc t r c = text_result r c (decode_chunks cs).
Proof. exact process_text_with_decode_top. Qed.
Print Assumptions C04_process_text_with_decode_top.
""",
 "C05": """
(* the same, on the model's own function: a top-level attribute value whose chunks contain no
   general entity reference is normalised to norm_attr_chunks *)
Theorem C05_normalize_attribute_chunks_top :
  forall (text : bytes) (value : slice) (c : context) (s0 : Stream.stream) (cs : list chunk),
  existsb (fun x => (x =? 38) || (x =? 9) || (x =? 10) || (x =? 13)) (slice_bytes text value) = true ->
  stream_from_substr text (sl_start value) (sl_end value) = Ok s0 ->
  areads text false s0 cs ->
  (0 <? ld_depth (c_ld c)) = false ->
  normalize_attribute text value c = OutOfFuel \\/
  normalize_attribute text value c =
    (if valid_utf8_b (norm_attr_chunks cs)
     then Ok (Doc.Owned (norm_attr_chunks cs), set_ld c (c_ld c))
     else Panic P_unwrap).
Proof. exact normalize_attribute_chunks_top. Qed.
Print Assumptions C05_normalize_attribute_chunks_top.
""",
}


def checked_types(t, g):
    """statements of theorems stated inside Sections (binders before the colon): asked from Coq itself with `Check`
    in the environment of the property file (imports + the group's prelude); the printed, fully generalised type is
    what gets pinned"""
    import subprocess, tempfile, hashlib, json
    path, names, prelude = g[0], g[1], g[2]
    src = open(os.path.join(COQ, "Proofs", path)).read()
    key = hashlib.md5((src + prelude + "|".join(names) + "|".join(t["imports"])).encode()).hexdigest()
    cache_file = os.path.join(COQ, "..", "build", "pin_cache.json")
    try:
        cache = json.load(open(cache_file))
    except (OSError, ValueError):
        cache = {}
    if key in cache:
        return cache[key]
    body = "\n".join(STD + t["imports"]) + "\nOpen Scope N_scope.\n" + prelude + "\nSet Printing Width 110.\nSet Printing Depth 1000.\n"
    body += "\n".join('Check %s.' % n for n in names) + "\n"
    with tempfile.NamedTemporaryFile("w", suffix=".v", dir="/tmp", delete=False) as f:
        f.write(body)
        tmp = f.name
    out = subprocess.run(["coqc", "-Q", COQ, "RX", tmp], stdout=subprocess.PIPE, stderr=subprocess.STDOUT, cwd=COQ).stdout.decode()
    for ext in (".v", ".vo", ".vok", ".vos", ".glob"):
        try:
            os.remove(tmp[:-2] + ext)
        except OSError:
            pass
    res = {}
    for n in names:
        m = re.search(r"^%s\n     : (.*?)(?=^\S|\Z)" % re.escape(n), out, re.S | re.M)
        if not m:
            raise SystemExit("pin_props: Check %s failed:\n%s" % (n, out[-1500:]))
        res[n] = m.group(1).rstrip()
    cache[key] = res
    os.makedirs(os.path.dirname(cache_file), exist_ok=True)
    json.dump(cache, open(cache_file, "w"))
    return res


def gen(pid):
    t = TABLE[pid]
    o = ["(* %s\n   Statements are pinned here (copied verbatim from the proof files by tools/pin_props.py);\n   each is re-proved by `exact` and followed by Print Assumptions. *)" % t["intro"]]
    o += STD + t["imports"]
    o.append("Open Scope N_scope.\n")
    n = 0
    for gi, g in enumerate(t["groups"]):
        path, names = g[0], g[1]
        o.append("(* ---- Proofs/%s ---- *)" % path)
        if len(g) > 2:
            o.append("Module G%d.\n%s" % (gi, g[2]))
        auto = checked_types(t, g) if (len(g) > 3 and g[3] == "CHECK") else None
        for name in names:
            if auto is not None:
                st = auto[name]
            else:
                st = stmt(path, name)
                if len(g) > 3:
                    st = g[3] + " " + st          # the statement is inside a Section: its variables become binders
            o.append("Theorem %s_%s :\n  %s.\nProof. exact %s. Qed.\nPrint Assumptions %s_%s.\n" % (pid, name, st, name, pid, name))
            n += 1
        if len(g) > 2:
            o.append("End G%d.\n" % gi)
    if pid in EXTRA:
        o.append(EXTRA[pid])
        n += EXTRA[pid].count("Theorem ")
    with open(os.path.join(COQ, "Properties", pid + ".v"), "w") as f:
        f.write("\n".join(o))
    return n


if __name__ == "__main__":
    for pid in (sys.argv[1:] or sorted(TABLE)):
        print(pid, gen(pid), "theorems pinned")
