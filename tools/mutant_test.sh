#!/bin/bash
# Self-test helper (not a registered check): runs property checks against a patched copy of
# the repository, in a scratch copy of /verif, so that neither /repo nor /verif is touched.
#   tools/mutant_test.sh <patch.diff> <tier> <pid> [<pid> ...]
# Prints one line per property: "<pid> exit=<code> <VIOLATION line or summary>".
set -u
patch=$(readlink -f "$1"); tier=$2; shift 2
scratch=$(mktemp -d /tmp/vt-XXXXXX)
trap 'git -C /repo worktree remove --force "$scratch/repo" >/dev/null 2>&1; rm -rf "$scratch"' EXIT
rsync -a --exclude "build/work-*" --exclude "replays/*" --exclude ".git" "${VERIF_SRC:-/verif}/" "$scratch/verif/"
git -C /repo worktree add --detach "$scratch/repo" HEAD >/dev/null 2>&1 || { echo "worktree failed"; exit 2; }
if ! git -C "$scratch/repo" apply "$patch"; then echo "patch does not apply"; exit 2; fi
sed -i "s#path = \"/repo\"#path = \"$scratch/repo\"#" "$scratch/verif/harness/Cargo.toml"
rm -f "$scratch/verif/harness/Cargo.lock"; cp "$scratch/repo/Cargo.lock" "$scratch/verif/harness/Cargo.lock" 2>/dev/null
for pid in "$@"; do
  out=$(cd "$scratch/verif" && VERIF_REPO="$scratch/repo" VERIF_TIER=$tier ./check run "$pid" --tier "$tier" 2>&1 | grep -v "^WARNING conda")
  code=$?
  v=$(echo "$out" | grep -m1 "^VIOLATION" || echo "$out" | tail -1)
  echo "$pid exit=$(echo "$out" | grep -q '^VIOLATION' && echo 1 || echo 0) $v"
  if echo "$out" | grep -q "^VIOLATION"; then
    f=$(echo "$v" | sed -n 's/.*replay=\([^ ]*\).*/\1/p')
    [ -f "$f" ] && python3 -c "
import json,sys
o=json.load(open('$f'))
print('   why:', str(o.get('why') or o.get('proof_problems') or o.get('kind'))[:300])
c=o.get('case') or (o.get('cases') or [None])[0] or (o.get('first_difference') or {}).get('case')
if c: print('   input:', repr(c.get('input'))[:200])"
  fi
done
