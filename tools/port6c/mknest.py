#!/usr/bin/env python3
# Proofs/CstSound6cNest.v from Proofs/CstSound6bNest.v: Section Lv rewritten (SemB, LvSemT: explicit traces), PB / inline_run_m
# added, attribute lemmas on vnoamp, flat_sound / markup_use rewritten (text tokens through PB).  The generated file is the source
# of record once edited by hand; rerun only to rebuild it from the 6b file.
import re
D='/verif/coq/Proofs/'
def rep1(s,a,b,cnt=1):
    assert s.count(a)==cnt,(a[:90],s.count(a))
    return s.replace(a,b)
s=open(D+'CstSound6bNest.v').read()
MODS=['Lex','Dtd','Text','Doc','Val','RText','RTok','RTag','Nest','BText','BMain','RDoc']
for m in MODS: s=re.sub(r'CstSound6b'+m+r'\b','CstSound6c'+m,s)
s=s.replace('Frag6b','Frag6c'); s=re.sub(r'CstSound6aFlat\b','CstSound6cFlat',s)
i=s.index('From Coq Require Import String.')
s='''(* Proofs/CstSound6cNest.v -- C08 soundness on stage S6, markup-valued entities whose character data contains references:
   the crate's tree builder on the tokens of a declared markup value (Proofs/CstSound6cFlat.v: ftoks), run inside an entity
   (loop detector and entity floor arbitrary).  Proofs/CstSound6bNest.v with: a TEXT token handled by the hypothesis
   [PB lvl] (process_text_with at any entity depth -- proved in Proofs/CstSound6cBText.v by induction on the level of the
   model, mutually with [markup_use] of this file), whose pieces are the declared ones ([beps_unique]); the traces of the
   levels are kept explicitly ([LvSemT]): the loop detector runs through their concatenation, which is balanced; [SemB] is
   [SemL] of Proofs/CstSound6aSem.v with "balanced" instead of "within the limits from depth 0" (inside an entity the
   detector does not start at depth 0; the limits are checked once, at the reference in the body). *)
'''+s[i:]
s=rep1(s,'From RX.Proofs Require Import CstSound6aSem.\n','From RX.Proofs Require Import CstSound6aSem.\nFrom RX.Proofs Require CstFullS3Plug CstEntRejSem.\nFrom RX.Proofs Require Import DetectorProofs.\nNotation Bal := CstEntRejSem.Bal.\n')
# ---- Section Lv
a=s.index('Section Lv.'); b=s.index('End Lv.')+len('End Lv.')
lv=r'''Section Lv.
Variable tb : ytable.
Variable m : bool.

Definition SemB (sc : list Scope.binding) (cs : list uitem) (bs : list bitem) (tr : list Detector.lop) : Prop :=
  inline_items tb m cs = Some (bs, tr) /\ Bal tr /\ PV bs /\ ns_oks sc (bdens bs) = true.

Lemma SemB_nil sc : SemB sc [] [] [].
Proof. split; [reflexivity|]. split; [constructor|]. split; [constructor|reflexivity]. Qed.

Lemma SemB_cons sc (i : uitem) cs bi ti bs tr :
  inline_item tb m i = Some (bi, ti) -> Bal ti -> PV bi -> ns_oks sc (bdens bi) = true ->
  SemB sc cs bs tr -> SemB sc (i :: cs) (bi ++ bs) (ti ++ tr).
Proof.
  intros Hi Gi Pi Ni (H & G & P & Nn). split; [cbn [inline_items]; rewrite Hi; cbn [E.obind]; rewrite H; reflexivity|].
  split; [apply CstEntRejSem.Bal_app; assumption|]. split; [apply PV_app; assumption|]. rewrite CstFullS4Sem.bdens_app, CstFullTree.ns_oks_app, Ni, Nn. reflexivity.
Qed.

Lemma SemB_text sc ps cs b1 t1 bs tr :
  inline_run tb m (enc_epieces ps) = Some (b1, t1) -> Bal t1 -> PV b1 -> ns_oks sc (bdens b1) = true ->
  SemB sc cs bs tr -> SemB sc (CstSoundPRMain.cons_text_r ps cs) (b1 ++ bs) (t1 ++ tr).
Proof.
  intros Hi Gi Pi Ni HS.
  destruct cs as [|[n a w bd|qs|c|t s v] r]; cbn [CstSoundPRMain.cons_text_r]; try (apply SemB_cons; assumption).
  destruct HS as (H & G & P & Nn). cbn [inline_items inline_item] in H.
  destruct (inline_run tb m (enc_epieces qs)) as [[bq tq]|] eqn:Eq; [|discriminate]. cbn [E.obind] in H.
  destruct (inline_items tb m r) as [[br trr]|] eqn:Er; [|discriminate]. cbn [E.obind fst snd] in H. injection H as <- <-.
  split.
  { cbn [inline_items inline_item]. unfold enc_epieces. rewrite map_app. fold (enc_epieces ps). fold (enc_epieces qs).
    rewrite (inline_run_app tb m _ _ _ _ _ _ Hi Eq). cbn [E.obind]. rewrite Er. cbn [E.obind fst snd]. rewrite <- !app_assoc. reflexivity. }
  split; [apply CstEntRejSem.Bal_app; assumption|]. split; [apply PV_app; assumption|]. rewrite CstFullS4Sem.bdens_app, CstFullTree.ns_oks_app, Ni, Nn. reflexivity.
Qed.

Lemma elem_semB inh name (es : list uentry) (es' : list bentry) tra ws body bsb trb :
  inline_entries tb m es = Some (es', tra) -> Bal tra ->
  forallb (fun e => E.crlf_split_ok (e_value bpieces e)) es' = true ->
  ns_own inh (x_qname name) (map xb es') = true ->
  match body with
  | None => bsb = [] /\ trb = []
  | Some (cs, _) => SemB (Scope.scope_of (CstNs.own_bindings (map xb es')) inh) cs bsb trb
  end ->
  let i' := @IElem bpieces name es' ws (match body with None => None | Some (_, w2) => Some (regroup bsb, w2) end) in
  inline_item tb m (IElem name es ws body) = Some ([i'], tra ++ trb) /\ Bal (tra ++ trb) /\ PV [i'] /\
  ns_oks inh (bdens [i']) = true.
Proof.
  intros Ee Ge Ce Hown Hb i'.
  split.
  { rewrite CstFullS4Sem.inline_item_elem, Ee. cbn [E.obind]. destruct body as [[cs w2]|].
    - destruct Hb as (Hi & _). fold (inline_items tb m cs). rewrite Hi. reflexivity.
    - destruct Hb as [-> ->]. rewrite app_nil_r. reflexivity. }
  split; [destruct body as [[cs w2]|]; [apply CstEntRejSem.Bal_app; [exact Ge|apply Hb]|destruct Hb as [_ ->]; rewrite app_nil_r; exact Ge]|].
  split.
  { constructor; [|constructor]. unfold i', pv1. cbn [provisos_item]. rewrite Ce. cbn [andb].
    destruct body as [[cs w2]|]; [|reflexivity]. rewrite provisos_fix. apply PV_provisos. apply PV_regroup. apply Hb. }
  assert (Eden : bdens [i'] = [CstNs.IElem (x_qname name) (map xb es') ws
             (match body with None => None | Some (_, w2) => Some (bdens (regroup bsb), w2) end)]).
  { cbn [CstFullTree.dens]. rewrite app_nil_r. unfold i'. rewrite CstFullTree.den_elem. destruct body as [[cs w2]|]; reflexivity. }
  rewrite Eden.
  cbn [CstFullTree.ns_oks]. rewrite andb_true_r, CstFullTree.ns_ok_elem. cbv zeta. unfold CstNsTree.esc.
  unfold CstSoundNBuild.ns_own in Hown. cbv zeta in Hown. rewrite Hown. cbn [andb].
  destruct body as [[cs w2]|]; [|reflexivity]. rewrite ns_oks_regroup. apply Hb.
Qed.

(* the levels of [build], innermost first, each with its trace *)
Fixpoint LvT (opn : list frame) (lv : list lvl) (trs : list (list Detector.lop)) : Prop :=
  match opn, lv, trs with
  | [], [], [] => True
  | f :: o, cw :: l, t :: ts => (exists bs, SemB (f_sc f) (fst cw) bs t) /\ LvT o l ts
  | _, _, _ => False
  end.
Definition LvSemT (opn : list frame) (scl : list Scope.binding) (s : bstate) (trs : list (list Detector.lop)) (trl : list Detector.lop) : Prop :=
  LvT opn (fst s) trs /\ exists bs, SemB scl (snd s) bs trl.
Definition hsc (opn : list frame) (scl : list Scope.binding) : list Scope.binding :=
  match opn with f :: _ => f_sc f | [] => scl end.
Definition total (trs : list (list Detector.lop)) (trl : list Detector.lop) : list Detector.lop := concat trs ++ trl.

(* the head list changes, its trace gets [t0] in front *)
Lemma LvSemT_upd opn scl lv last (g : list uitem -> list uitem) t0 trs trl : LvSemT opn scl (lv, last) trs trl ->
  (forall cs bs t, SemB (hsc opn scl) cs bs t -> exists bs', SemB (hsc opn scl) (g cs) bs' (t0 ++ t)) ->
  exists trs' trl', LvSemT opn scl (upd_first g lv last) trs' trl' /\ total trs' trl' = t0 ++ total trs trl.
Proof.
  intros [A (bl & B0)] Hg. cbn [fst snd] in *. destruct lv as [|[cs w] lv'].
  - destruct opn; [|destruct A]. destruct trs; [|destruct A]. cbn [hsc] in Hg. destruct (Hg _ _ _ B0) as (bs' & H').
    exists [], (t0 ++ trl). split; [split; [exact I|exists bs'; exact H']|reflexivity].
  - destruct opn as [|f opn']; [destruct A|]. destruct trs as [|t ts]; [destruct A|]. destruct A as [(bs & Hf) Hr]. cbn [hsc fst] in *.
    destruct (Hg _ _ _ Hf) as (bs' & H').
    exists ((t0 ++ t) :: ts), trl. split; [split; [split; [exists bs'; exact H'|exact Hr]|exists bl; exact B0]|].
    unfold total. cbn [concat]. rewrite <- !app_assoc. reflexivity.
Qed.

Lemma LvSemT_close f opn scl s ws2 trs trl : LvSemT opn scl s trs trl ->
  LvSemT (f :: opn) scl (([], ws2) :: fst s, snd s) ([] :: trs) trl /\ total ([] :: trs) trl = total trs trl.
Proof. intros [A B0]. split; [|reflexivity]. split; [|exact B0]. cbn [fst LvT]. split; [exists []; apply SemB_nil|exact A]. Qed.

(* an element with content: its children are the head level *)
Lemma LvSemT_open f opn scl cs_in w_in lv1 last name (es : list uentry) (es' : list bentry) tra ws trs trl :
  LvSemT (f :: opn) scl ((cs_in, w_in) :: lv1, last) trs trl ->
  inline_entries tb m es = Some (es', tra) -> Bal tra ->
  forallb (fun e => E.crlf_split_ok (e_value bpieces e)) es' = true ->
  ns_own (hsc opn scl) (x_qname name) (map xb es') = true ->
  f_sc f = Scope.scope_of (CstNs.own_bindings (map xb es')) (hsc opn scl) ->
  exists trs' trl', LvSemT opn scl (upd_first (cons (IElem name es ws (Some (cs_in, w_in)))) lv1 last) trs' trl' /\
    total trs' trl' = tra ++ total trs trl.
Proof.
  intros [A B0] Ee Ge Ce Hown Hsc. cbn [fst snd] in *. destruct trs as [|t1 ts]; [destruct A|]. destruct A as [(bsb & Hin) Hr].
  cbn [fst] in Hin. rewrite Hsc in Hin.
  destruct (elem_semB (hsc opn scl) name es es' tra ws (Some (cs_in, w_in)) bsb t1 Ee Ge Ce Hown Hin) as (I1 & I2 & I3 & I4).
  destruct (LvSemT_upd opn scl lv1 last (cons (IElem name es ws (Some (cs_in, w_in)))) (tra ++ t1) ts trl (conj Hr B0)) as (trs' & trl' & HL & Et).
  { intros cs bs t Hc. eexists. exact (SemB_cons _ _ _ _ _ _ _ I1 I2 I3 I4 Hc). }
  exists trs', trl'. split; [exact HL|]. rewrite Et. unfold total. cbn [concat]. rewrite <- !app_assoc. reflexivity.
Qed.

End Lv.'''
s=s[:a]+lv+s[b:]
stage1=s
s=stage1
s=rep1(s,'''  (mem_b 60 (E.r_value (E.e_value d)) = true /\\ Forall (fun y => y <> 38) (E.r_value (E.e_value d))) \\/ ImpT decls d.''',
'''  (mem_b 60 (E.r_value (E.e_value d)) = true /\\ U8.Valid (E.r_value (E.e_value d))) \\/ ImpT decls d.''')
s=rep1(s,'''Definition ResX (c : context) : Prop := exists D K, Res (sh c) D K [].
''','''Definition ResX (c : context) : Prop := exists D K, Res (sh c) D K [].

(* process_text on a window, at any entity depth: level j of the model, table of level k = 10 - depth *)
Definition PB (j : nat) : Prop := forall p x tail c c' stk k,
  WV p (x ++ tail) -> U8.Valid x -> SimD c stk -> ResX c -> ld_depth (c_ld c) + N.of_nat k = 10 ->
  process_text_with text (parse_content_lvl text j) (sl p (p + blen x)) (p, p + blen x) c = Ok c' ->
  exists ps bs tr, x = E.r_epieces ps /\\ beps_ok ps /\\ inline_run (X4.level xds k) false ps = Some (bs, tr) /\\
    ld_run (c_ld c) tr = Some (c_ld c') /\\ Bal tr /\\ PV bs /\\ ns_oks (top_sc stk) (bdens bs) = true /\\ SimD c' stk /\\ ResX c'.

Lemma inline_run_m tb m m' : forall ps, inline_run tb m ps = inline_run tb m' ps.
Proof. induction ps as [|[p|n] ps IH]; [reflexivity| |]; cbn [inline_run]; rewrite IH; reflexivity. Qed.
''')
# attrs_shadow
s=rep1(s,'''Lemma attrs_shadow lvl : forall attrs q rest c c', WV q (flat_map r_rattr attrs ++ rest) -> Forall rattr_ok attrs ->
  Forall (fun y => y <> 38) (flat_map r_rattr attrs) ->''','''Lemma attrs_shadow lvl : forall attrs q rest c c', WV q (flat_map r_rattr attrs ++ rest) -> Forall rattr_ok attrs ->
  vnoamp attrs ->''')
s=rep1(s,'''  - cbn [nattr_toks CstLex.evs] in H |- *. ib H c1 H1. cbn [flat_map] in HWV, H38. rewrite <- app_assoc in HWV.
    apply Forall_app in H38. destruct H38 as [H38a H38r].
''','''  - cbn [nattr_toks CstLex.evs] in H |- *. ib H c1 H1. cbn [flat_map] in HWV. rewrite <- app_assoc in HWV.
    inversion H38 as [|? ? H38v H38r]; subst.
''')
s=rep1(s,'''    assert (H38v : Forall (fun y => y <> 38) (utf8s (ra_val a))).
    { unfold r_rattr in H38a. do 6 (apply Forall_app in H38a; destruct H38a as [_ H38a]). apply Forall_app in H38a. tauto. }
''','')
# ents_unique
s=rep1(s,'''Lemma ents_unique : forall attrs es, Forall rattr_ok attrs -> Forall (fun y => y <> 38) (flat_map r_rattr attrs) ->''','''Lemma ents_unique : forall attrs es, Forall rattr_ok attrs -> vnoamp attrs ->''')
s=rep1(s,'''  inversion Hok as [|? ? Ha Hr]; subst. cbn [flat_map] in H38. apply Forall_app in H38. destruct H38 as [H38a H38r].
  cbn [map]. rewrite (IH Hr H38r). f_equal. f_equal.
  destruct Ha as (_ & _ & _ & _ & _ & Hu & _). unfold wf_eval in Hwf. apply andb_true_iff in Hwf. destruct Hwf as [Hwf _].
  apply (lit_unique (ra_quote a)); try assumption.
  unfold r_rattr in H38a. do 6 (apply Forall_app in H38a; destruct H38a as [_ H38a]). apply Forall_app in H38a. tauto.
''','''  inversion Hok as [|? ? Ha Hr]; subst. inversion H38 as [|? ? H38a H38r]; subst.
  cbn [map]. rewrite (IH Hr H38r). f_equal. f_equal.
  destruct Ha as (_ & _ & _ & _ & _ & Hu & _). unfold wf_eval in Hwf. apply andb_true_iff in Hwf. destruct Hwf as [Hwf _].
  apply (lit_unique (ra_quote a)); assumption.
''')
s=rep1(s,'''  qn_ok pre loc -> Forall rattr_ok attrs -> Cst.wf_ws ws_end = true -> Forall (fun y => y <> 38) (flat_map r_rattr attrs) ->
  SimD c stk -> ResX c ->''','''  qn_ok pre loc -> Forall rattr_ok attrs -> Cst.wf_ws ws_end = true -> vnoamp attrs ->
  SimD c stk -> ResX c ->''')
# remove P0
a=s.index('Definition P0 (tr : list Detector.lop) : Prop := tr = [].'); b=s.index('Lemma hsc_top opn rest')
s=s[:a]+s[b:]
# flat1_valid text case
s=rep1(s,'  - apply Valid_uchars. apply Hok.\n','  - destruct Hok as ((cs0 & Hraw & <-) & _). apply Valid_uchars. apply Hraw.\n')
# flat_sound + markup_use
a=s.index('(* the tokens of a markup value, from any context inside an entity *)'); b=s.index('End Nest.')
new=r'''(* the tokens of a markup value, from any context inside an entity *)
Lemma flat_sound k lvl : PB lvl -> forall fl p post c c' opn rest names,
  WV p (r_flat fl ++ post) -> flat_ok fl -> fbal names fl -> length names = length opn ->
  SimD c (opn ++ rest) -> ResX c -> ld_depth (c_ld c) + N.of_nat k = 10 ->
  evs (evl text lvl) (ftoks p fl) c = Ok c' ->
  SimD c' rest /\ ResX c' /\ exists trs trl, LvSemT (X4.level xds k) true opn (top_sc rest) (build fl) trs trl /\
    ld_run (c_ld c) (total trs trl) = Some (c_ld c') /\ Bal (total trs trl).
Proof.
  intros HPB. set (tb := X4.level xds k).
  induction fl as [|x fl IH]; intros p post c c' opn rest names HWV Hok Hbal Hlen HS HR Hd H.
  { cbn [ftoks CstLex.evs] in H. injection H as <-. cbn [fbal] in Hbal. subst names. destruct opn; [|discriminate]. cbn [app] in HS.
    split; [exact HS|]. split; [exact HR|]. exists [], []. split; [split; [exact I|exists []; apply SemB_nil]|]. split; [reflexivity|constructor]. }
  cbn [ftoks] in H. rewrite evs_app in H. ib H c1 H1. cbn [flat_ok] in Hok. destruct Hok as (Hok1 & Hstop & Hokr).
  cbn [r_flat flat_map] in HWV. fold (r_flat fl) in HWV. rewrite <- app_assoc in HWV.
  assert (HWn : WV (p + blen (r_flat1 x)) (r_flat fl ++ post)).
  { apply (WV_app text _ _ _ HWV). exact (flat1_valid x _ Hok1 (proj2 HWV)). }
  (* a token that leaves the detector alone, after which the head level gets an item in front *)
  assert (STEP0 : forall c1 opn1 names1 (g : list uitem -> list uitem),
            SimD c1 (opn1 ++ rest) -> ResX c1 -> c_ld c1 = c_ld c -> fbal names1 fl -> length names1 = length opn1 ->
            evs (evl text lvl) (ftoks (p + blen (r_flat1 x)) fl) c1 = Ok c' ->
            SimD c' rest /\ ResX c' /\ exists trs trl, LvSemT tb true opn1 (top_sc rest) (build fl) trs trl /\
              ld_run (c_ld c) (total trs trl) = Some (c_ld c') /\ Bal (total trs trl)).
  { intros c2 opn1 names1 g HS2 HR2 L2 Hb2 Hl2 H2.
    destruct (IH _ _ _ _ opn1 rest _ HWn Hokr Hb2 Hl2 HS2 HR2 ltac:(rewrite L2; exact Hd) H2) as (A1 & A2 & trs & trl & A3 & A4 & A5).
    split; [exact A1|]. split; [exact A2|]. exists trs, trl. split; [exact A3|]. split; [rewrite <- L2; exact A4|exact A5]. }
  destruct x as [pre loc attrs ws|pre loc attrs ws|pre loc ws2|ps|cs|bs|t sep v]; cbn [ftok1] in H1; cbn [fbal] in Hbal; cbn [build fold_right]; fold (build fl).
  - (* a start tag *)
    destruct Hok1 as (Hqn & Hat & Hws & H38). cbn [r_flat1] in HWV. rewrite <- !app_assoc in HWV. change [62] with (tag_tail (negb true)) in HWV.
    destruct (tag_lit tb lvl p pre loc attrs ws true _ c c1 (opn ++ rest) HWV Hqn Hat Hws H38 HS HR H1) as (nss & es' & HS1 & HR1 & L1 & _ & I1 & I3 & Hown & Hsc).
    set (f := frame_of_r decls (opn ++ rest) pre loc (ents_of attrs) nss) in *.
    destruct (STEP0 c1 (f :: opn) _ (fun l => l) HS1 HR1 L1 Hbal ltac:(cbn [length]; rewrite Hlen; reflexivity) H) as (HS2 & HR2 & trs & trl & HL & Hrun & HB).
    split; [exact HS2|]. split; [exact HR2|].
    destruct (build fl) as [lv last] eqn:Eb.
    destruct lv as [|[cs_in w_in] lv1]; [destruct HL as [A _]; cbn in A; destruct A|].
    cbn [bstep fst snd].
    destruct (LvSemT_open tb true f opn (top_sc rest) cs_in w_in lv1 last (mkq pre loc) (ents_of attrs) es' [] ws trs trl HL I1 (CstEntRejSem.Bal_nil) I3) as (trs' & trl' & HL' & Et).
    + rewrite hsc_top. exact Hown.
    + unfold f. cbn [frame_of_r f_sc]. rewrite hsc_top. exact Hsc.
    + exists trs', trl'. split; [exact HL'|]. rewrite Et. split; assumption.
  - (* an empty element *)
    destruct Hok1 as (Hqn & Hat & Hws & H38). cbn [r_flat1] in HWV. rewrite <- !app_assoc in HWV. change [47; 62] with (tag_tail (negb false)) in HWV.
    destruct (tag_lit tb lvl p pre loc attrs ws false _ c c1 (opn ++ rest) HWV Hqn Hat Hws H38 HS HR H1) as (nss & es' & HS1 & HR1 & L1 & _ & I1 & I3 & Hown & _).
    destruct (STEP0 c1 opn _ (fun l => l) HS1 HR1 L1 Hbal Hlen H) as (HS2 & HR2 & trs & trl & HL & Hrun & HB).
    split; [exact HS2|]. split; [exact HR2|].
    rewrite <- hsc_top in Hown.
    destruct (elem_semB tb true (hsc opn (top_sc rest)) (mkq pre loc) (ents_of attrs) es' [] ws None [] [] I1 (CstEntRejSem.Bal_nil) I3 Hown (conj eq_refl eq_refl))
      as (J1 & J2 & J3 & J4).
    cbn [bstep]. destruct (build fl) as [lv last]. cbn [fst snd].
    destruct (LvSemT_upd tb true opn (top_sc rest) lv last (cons (IElem (mkq pre loc) (ents_of attrs) ws None)) [] trs trl HL) as (trs' & trl' & HL' & Et).
    { intros cs0 bs0 t0 Hc. eexists. exact (SemB_cons tb true _ _ _ _ _ _ _ J1 J2 J3 J4 Hc). }
    exists trs', trl'. split; [exact HL'|]. rewrite Et. split; assumption.
  - (* an end tag *)
    cbn [CstLex.evs] in H1. ib H1 cx Hx. injection H1 as <-. unfold nclose_tok in Hx.
    pose proof (close_floor text lvl _ _ _ _ _ Hx) as Hfl.
    assert (Pc : plain_tok (TElementEnd (EClose (sl (p + 2) (p + 2 + blen (utf8s pre))) (sl (p + 2 + qoff pre) (p + 2 + qoff pre + blen (utf8s loc))))
                                 (p, p + 2 + blen (rq pre loc) + blen ws2 + 1))) by (split; intros; discriminate).
    destruct (plain_step text lvl _ _ _ Pc ltac:(intros; exact Hfl) Hx) as (T1 & L1 & _).
    destruct (step_close_p text ets _ _ _ _ _ _ HS T1) as (f & stk' & Estk & _ & _ & HS1 & _ & Hnq).
    destruct names as [|n names']; [contradiction|]. destruct Hbal as [_ Hbal].
    destruct opn as [|f0 opn']; [discriminate|]. cbn [app] in Estk. injection Estk as <- <-.
    assert (HR1 : ResX cx) by (destruct HR as (D & K & HR); exists D, K; exact (Res_eq text _ _ _ _ _ Hnq HR)).
    destruct (STEP0 cx opn' _ (fun l => l) HS1 HR1 L1 Hbal ltac:(cbn [length] in Hlen; lia) H) as (HS2 & HR2 & trs & trl & HL & Hrun & HB).
    split; [exact HS2|]. split; [exact HR2|]. cbn [bstep].
    destruct (LvSemT_close tb true f0 opn' (top_sc rest) (build fl) ws2 trs trl HL) as [HL' Et].
    exists ([] :: trs), trl. split; [exact HL'|]. rewrite Et. split; assumption.
  - (* text: the pieces the crate reads are the declared ones *)
    cbn [CstLex.evs] in H1. ib H1 cx Hx. injection H1 as <-. destruct Hok1 as ((csr & Hraw & Ecs) & Hwfp & Hadjp & Hnep). cbn [r_flat1] in HWV.
    unfold CstEntCBuild.evl in Hx. cbn [token_with] in Hx.
    assert (HVx : U8.Valid (E.r_epieces (enc_epieces ps))) by (rewrite <- Ecs; apply Valid_uchars; apply Hraw).
    destruct (HPB _ _ _ _ _ (opn ++ rest) k HWV HVx HS HR Hd Hx) as (ps1 & bs1 & tr1 & E1 & Hps1 & Hi1 & Hr1 & Hb1 & HP1 & Hn1 & HS1 & HR1).
    assert (Hwfu : wf_uepieces 60 false true true ps = true) by (unfold wf_uepieces; rewrite Hwfp, Hadjp; reflexivity).
    destruct (CstFullS3Plug.uepieces_ok 60 false true true ps ltac:(lia) Hwfu (CstFullS3Plug.no_cdata_of _ _ _ _ Hwfp)) as (Huep & Hadje & _).
    assert (ps1 = enc_epieces ps) by (apply beps_unique; [exact Hps1|apply (uep_beps true); assumption|symmetry; exact E1]). subst ps1.
    pose proof (ld_run_bal tr1 Hb1 _ _ Hr1) as Dd.
    destruct (IH _ _ _ _ opn rest _ HWn Hokr Hbal Hlen HS1 HR1 ltac:(rewrite Dd; exact Hd) H) as (HS2 & HR2 & trs & trl & HL & Hrun & HB).
    split; [exact HS2|]. split; [exact HR2|].
    cbn [bstep]. destruct (build fl) as [lv last]. cbn [fst snd].
    destruct (LvSemT_upd tb true opn (top_sc rest) lv last (CstSoundPRMain.cons_text_r ps) tr1 trs trl HL) as (trs' & trl' & HL' & Et).
    { intros cs0 bs0 t0 Hc. eexists. apply (SemB_text tb true _ ps cs0 bs1 tr1 bs0 t0); [rewrite (inline_run_m _ true false); exact Hi1|exact Hb1|exact HP1| |exact Hc].
      rewrite hsc_top. exact Hn1. }
    exists trs', trl'. split; [exact HL'|]. rewrite Et. split; [rewrite DetectorProofs.ld_run_app, Hr1; exact Hrun|apply CstEntRejSem.Bal_app; assumption].
  - (* a CDATA section *)
    cbn [CstLex.evs] in H1. ib H1 cx Hx. injection H1 as <-. unfold cdata_tok in Hx.
    destruct (cdata_shadow lvl _ _ _ _ Hx) as [TF Ld].
    assert (HR1 : ResX cx) by (destruct HR as (D & K & HR); exists D, K; apply (Res_eq text (sh c) (sh cx) D K []); [apply (tframe_sh _ _ TF)|exact HR]).
    destruct (STEP0 cx opn _ (fun l => l) (SimD_tframe _ _ _ HS TF) HR1 Ld Hbal Hlen H) as (HS2 & HR2 & trs & trl & HL & Hrun & HB).
    split; [exact HS2|]. split; [exact HR2|].
    cbn [bstep]. destruct (build fl) as [lv last]. cbn [fst snd].
    destruct (LvSemT_upd tb true opn (top_sc rest) lv last (CstSoundPRMain.cons_text_r [E.EP (T.PCData cs)]) [] trs trl HL) as (trs' & trl' & HL' & Et).
    { intros cs0 bs0 t0 Hc. eexists. apply (SemB_text tb true _ [E.EP (T.PCData cs)] cs0 [@IText bpieces [T.PCData (utf8s cs)]] [] bs0 t0); [reflexivity|constructor| |apply ns_oks_texts; reflexivity|exact Hc].
      constructor; [reflexivity|constructor]. }
    exists trs', trl'. split; [exact HL'|]. rewrite Et. split; assumption.
  - (* a comment *)
    cbn [CstLex.evs] in H1. ib H1 cx Hx. injection H1 as <-.
    assert (Pc : plain_tok (TComment (sl (p + 4) (p + 4 + blen (utf8s bs))) (p, p + 4 + blen (utf8s bs) + 3))) by (split; intros; discriminate).
    destruct (plain_step text lvl _ _ _ Pc ltac:(intros pr lo r E; discriminate E) Hx) as (T1 & L1 & _).
    destruct (step_comment_p text ets _ _ _ _ _ HS T1) as (HS1 & _).
    assert (HR1 : ResX cx) by (destruct HR as (D & K & HR); exists D, K; exact (Res_eq text _ _ _ _ _ (leaf_nseq text _ _ _ _ T1) HR)).
    destruct (STEP0 cx opn _ (fun l => l) HS1 HR1 L1 Hbal Hlen H) as (HS2 & HR2 & trs & trl & HL & Hrun & HB).
    split; [exact HS2|]. split; [exact HR2|].
    cbn [bstep]. destruct (build fl) as [lv last]. cbn [fst snd].
    destruct (LvSemT_upd tb true opn (top_sc rest) lv last (cons (@IComment epieces bs)) [] trs trl HL) as (trs' & trl' & HL' & Et).
    { intros cs0 bs0 t0 Hc. eexists. apply (SemB_cons tb true _ (@IComment epieces bs) cs0 [@IComment bpieces bs] [] bs0 t0); [reflexivity|constructor| |reflexivity|exact Hc].
      constructor; [reflexivity|constructor]. }
    exists trs', trl'. split; [exact HL'|]. rewrite Et. split; assumption.
  - (* a PI *)
    cbn [CstLex.evs] in H1. ib H1 cx Hx. injection H1 as <-. unfold pi_tok in Hx. cbv zeta in Hx.
    match type of Hx with evl _ _ ?tk _ = _ => assert (Pc : plain_tok tk) by (split; intros; discriminate) end.
    destruct (plain_step text lvl _ _ _ Pc ltac:(intros pr lo r E; discriminate E) Hx) as (T1 & L1 & _).
    destruct (step_pi_p text ets _ _ _ _ _ _ HS T1) as (HS1 & _).
    assert (HR1 : ResX cx) by (destruct HR as (D & K & HR); exists D, K; exact (Res_eq text _ _ _ _ _ (leaf_nseq text _ _ _ _ T1) HR)).
    destruct (STEP0 cx opn _ (fun l => l) HS1 HR1 L1 Hbal Hlen H) as (HS2 & HR2 & trs & trl & HL & Hrun & HB).
    split; [exact HS2|]. split; [exact HR2|].
    cbn [bstep]. destruct (build fl) as [lv last]. cbn [fst snd].
    destruct (LvSemT_upd tb true opn (top_sc rest) lv last (cons (@IPI epieces t sep v)) [] trs trl HL) as (trs' & trl' & HL' & Et).
    { intros cs0 bs0 t0 Hc. eexists. apply (SemB_cons tb true _ (@IPI epieces t sep v) cs0 [@IPI bpieces t sep v] [] bs0 t0); [reflexivity|constructor| |reflexivity|exact Hc].
      constructor; [reflexivity|constructor]. }
    exists trs', trl'. split; [exact HL'|]. rewrite Et. split; assumption.
Qed.

(* the value of a declared markup entity, read at a reference: from the context of the reference (any detector, any floor),
   the builder comes back to the same open elements, the declared items inline under the table of the level of the
   reference and satisfy the namespace rules at this place, and the detector runs through the trace of the inlining *)
Theorem markup_use k lvl vs its tail es c sx c' stk : PB lvl ->
  UseOK text vs its -> WV vs (X4.r_uitems its ++ tail) ->
  stream_from_substr text vs (vs + blen (X4.r_uitems its)) = Ok es ->
  SimD c stk -> ResX c -> ld_depth (c_ld c) + N.of_nat k = 10 ->
  parse_content text context (evl text lvl) es c = Ok (sx, c') ->
  SimD c' stk /\ ResX c' /\ exists bs tr, SemB (X4.level xds k) true (top_sc stk) its bs tr /\ ld_run (c_ld c) tr = Some (c_ld c').
Proof.
  intros HPB HU HWV Es HS HR Hd H.
  destruct (use_tokens text vs its context (evl text lvl) es c sx c' HU Es H) as (fl & Eb & Hok & Hbal & Er & Hev).
  rewrite <- Er in HWV.
  destruct (flat_sound k lvl HPB fl vs tail c c' [] stk [] HWV Hok Hbal eq_refl HS HR Hd Hev) as (HS' & HR' & trs & trl & [A (bs & HL)] & Hrun & _).
  rewrite Eb in A, HL. cbn [fst snd] in A, HL. destruct trs; [|destruct A]. unfold total in Hrun. cbn [concat app] in Hrun.
  split; [exact HS'|]. split; [exact HR'|]. exists bs, trl. split; assumption.
Qed.

'''
s=s[:a]+new+s[b:]
open(D+'CstSound6cNest.v','w').write(s)
