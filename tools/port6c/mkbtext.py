#!/usr/bin/env python3
# Proofs/CstSound6cBText.v from Proofs/CstSound6bBText.v: PB from CstSound6cNest.v, markup_use with PB j' and its trace.
import re
D='/verif/coq/Proofs/'
def rep1(s,a,b,cnt=1):
    assert s.count(a)==cnt,(a[:90],s.count(a))
    return s.replace(a,b)
s=open(D+'CstSound6bBText.v').read()
MODS=['Lex','Dtd','Text','Doc','Val','RText','RTok','RTag','Nest','BText','BMain','RDoc']
for m in MODS: s=re.sub(r'CstSound6b'+m+r'\b','CstSound6c'+m,s)
s=s.replace('Frag6b','Frag6c'); s=re.sub(r'CstSound6aFlat\b','CstSound6cFlat',s)
i=s.index('From Coq Require Import String.')
s='''(* Proofs/CstSound6cBText.v -- C08 soundness on stage S6, the fragment [in_fragment_6c] (Proofs/CstSound6c.v): a text token
   of the BODY, and the value of an entity read in content, at ANY entity depth.  Proofs/CstSound6bBText.v with [PB] (now
   defined in Proofs/CstSound6cNest.v) proved MUTUALLY with [markup_use]: a markup value read at level S j' needs [PB j']
   for the references inside its character data, and hands back the trace of its inlining, through which the loop
   detector runs. *)
'''+s[i:]
s=rep1(s,'''  (mem_b 60 (E.r_value (E.e_value d)) = true /\\ Forall (fun y => y <> 38) (E.r_value (E.e_value d))) \\/ ImpT decls d.''',
'''  (mem_b 60 (E.r_value (E.e_value d)) = true /\\ U8.Valid (E.r_value (E.e_value d))) \\/ ImpT decls d.''')
# inline_run_m now in Nest
a=s.index('Lemma inline_run_m tb m m\' :'); b=s.index('(* a run all of whose references are to character-data entities is character data *)')
s=s[:a]+s[b:]
a=s.index('(* process_text on a window, at any entity depth: level j of the model, table of level k = 10 - depth *)'); b=s.index("(* a '<'-free value read by the content loop one level down: one text token *)")
s=s[:a]+'Notation PB := (CstSound6cNest.PB text xds ets).\n\n'+s[b:]
old=s[s.index("            destruct (markup_use text HF xds ets Henv Hdecls Hmk Hnames (X4.level xds k') j'"):s.index("          + (* character data that mentions a content-valued entity *)")]
new='''            destruct (markup_use text HF xds ets Henv Hdecls Hmk Hnames k' j' vs its0 tail es0 c3 sx c4 stk IHj Huse HWv Hes HS3 HR3 Hd3 Hq4)
              as (HS4 & HR4 & bsv & trv & HSem & Hrv).
            destruct HSem as (Hinl & Hbv & HPv & Hnv).
            exists bsv, trv. split.
            { rewrite CstFullS4Sem.ylookup_level, Hd0x, Exv. cbn [inline_value]. rewrite Hinl. reflexivity. }
            split; [rewrite <- Ld3; exact Hrv|]. split; [exact Hbv|]. auto 10.
'''
s=s.replace(old,new)
open(D+'CstSound6cBText.v','w').write(s)
