"""Reference functions used by the generators and by the search for a failing input.
They are written from the XML 1.0 / Namespaces 1.0 recommendations and the property statements,
not from the crate.  They support the validation of the model and the search; the theorems are in
coq/.  (The Coq counterparts of decode_text / norm_attr / scope_of are in coq/Spec/.)"""
import random

XML_URI = "http://www.w3.org/XML/1998/namespace"
XMLNS_URI = "http://www.w3.org/2000/xmlns/"
PREDEF = {"lt": "<", "gt": ">", "amp": "&", "apos": "'", "quot": '"'}


def hexs(s):
    if isinstance(s, str):
        s = s.encode("utf-8")
    return "x" + s.hex()


def norm_eol(s):
    return s.replace("\r\n", "\n").replace("\r", "\n")


def decode_text(src, ents, in_entity=False):
    """XML-defined decoding of a run of character data given as source text (literals, line ends,
    character references, predefined entities, CDATA sections, references to entities of `ents`)."""
    out = []
    i = 0
    n = len(src)
    while i < n:
        if src.startswith("<![CDATA[", i):
            j = src.index("]]>", i)
            out.append(norm_eol(src[i + 9:j]))
            i = j + 3
        elif src[i] == "&":
            j = src.index(";", i)
            name = src[i + 1:j]
            if name.startswith("#x"):
                out.append(chr(int(name[2:], 16)))
            elif name.startswith("#"):
                out.append(chr(int(name[1:])))
            elif name in PREDEF:
                out.append(PREDEF[name])
            else:
                out.append(decode_text(ents[name], ents, True))
            i = j + 1
        elif src[i] == "\r":
            out.append("\n")
            i += 2 if (i + 1 < n and src[i + 1] == "\n") else 1
        else:
            out.append(src[i])
            i += 1
    return "".join(out)


def ws_to_space(c):
    return " " if c in "\t\n\r" else c


def norm_attr(src, ents, depth=0):
    """XML 1.0 section 3.3.3 normalisation of an attribute value literal (CDATA type)."""
    out = []
    i = 0
    n = len(src)
    while i < n:
        c = src[i]
        if c == "&":
            j = src.index(";", i)
            name = src[i + 1:j]
            if name.startswith("#x"):
                ch = chr(int(name[2:], 16))
                out.append(ch if depth == 0 else ws_to_space(ch))
            elif name.startswith("#"):
                ch = chr(int(name[1:]))
                out.append(ch if depth == 0 else ws_to_space(ch))
            elif name in PREDEF:
                out.append(PREDEF[name])
            else:
                out.append(norm_attr(ents[name], ents, depth + 1))
            i = j + 1
        elif c == "\r":
            out.append(" ")
            i += 2 if (i + 1 < n and src[i + 1] == "\n") else 1
        elif c in "\t\n":
            out.append(" ")
            i += 1
        else:
            out.append(c)
            i += 1
    return "".join(out)


# ---------------------------------------------------------------------------------------------
# abstract documents
# ---------------------------------------------------------------------------------------------
class Elem:
    def __init__(self, prefix, local, attrs, decls, children):
        self.prefix, self.local = prefix, local
        self.attrs = attrs        # [(prefix, local, logical value)]
        self.decls = decls        # [(prefix or "", uri)] in source order
        self.children = children


class Text:
    def __init__(self, value):
        self.value = value        # logical (decoded) text, non-empty


class Comment:
    def __init__(self, text):
        self.text = text


class PI:
    def __init__(self, target, value):
        self.target, self.value = target, value   # value None or non-empty, not starting with whitespace


class Doc:
    def __init__(self, root, before=None, after=None, in_dtd=None):
        self.root = root
        self.before = before or []    # comments / PIs before the root element (after a DOCTYPE, if any)
        self.after = after or []
        self.in_dtd = in_dtd or []    # comments / PIs inside the internal subset


def scope_of(own, inherited):
    ownp = [p for p, _ in own]
    return list(own) + [(p, u) for p, u in inherited if p not in ownp]


def resolve(scope, prefix, is_attr):
    if prefix == "xml":
        return XML_URI
    if prefix == "":
        if is_attr:
            return None
        for p, u in scope:
            if p == "":
                return u            # may be "" (= no namespace, reported as empty URI)
        return None
    for p, u in scope:
        if p == prefix:
            return u
    raise KeyError(prefix)


def well_scoped(e, inherited=()):
    """True when every prefix used is declared (and no duplicate declarations / attributes)"""
    own = [(p, u) for p, u in e.decls if not (p == "xml")]
    if len(set(p for p, _ in e.decls)) != len(e.decls):
        return False
    for p, u in e.decls:
        if p == "xml" and u != XML_URI:
            return False
        if p != "xml" and u == XML_URI:
            return False
        if u == XMLNS_URI or p == "xmlns":
            return False
    sc = scope_of(own, list(inherited))
    try:
        resolve(sc, e.prefix, False)
        names = set()
        for p, l, _ in e.attrs:
            k = (resolve(sc, p, True), l)
            if k in names:
                return False
            names.add(k)
    except KeyError:
        return False
    return all(well_scoped(c, sc) for c in e.children if isinstance(c, Elem))


def expected_content(root, doc=None):
    """the 'c' section of the dump (Q A S K C X lines, without the case index) the document must
    produce; None when the document is not namespace-well-formed (then an error is expected)"""
    if not well_scoped(root):
        return None
    lines = []
    nid = [0]

    def misc(m):
        nid[0] += 1
        if isinstance(m, Comment):
            lines.append("C %d %s" % (nid[0], hexs(m.text)))
        else:
            lines.append("K %d %s %s" % (nid[0], hexs(m.target), hexs(m.value) if m.value is not None else "-"))

    def walk(e, inherited):
        nid[0] += 1
        me = nid[0]
        own = [(p, u) for p, u in e.decls if p != "xml"]
        sc = scope_of(own, inherited)
        ns = resolve(sc, e.prefix, False)
        lines.append("Q %d %s %s" % (me, hexs(ns) if ns is not None else "-", hexs(e.local)))
        for k, (p, l, v) in enumerate(e.attrs):
            ans = resolve(sc, p, True)
            lines.append("A %d %d %s %s %s" % (me, k, hexs(ans) if ans is not None else "-", hexs(l), hexs(v)))
        for k, (p, u) in enumerate(sc):
            lines.append("S %d %d %s %s" % (me, k, hexs(p) if p != "" else "-", hexs(u)))
        # merge adjacent text children
        pending = None
        for c in e.children:
            if isinstance(c, Text):
                pending = (pending or "") + c.value
                continue
            if pending:
                nid[0] += 1
                lines.append("X %d %s" % (nid[0], hexs(pending)))
                pending = None
            if isinstance(c, Elem):
                walk(c, sc)
            else:
                misc(c)
        if pending:
            nid[0] += 1
            lines.append("X %d %s" % (nid[0], hexs(pending)))

    if doc is not None:
        for m in doc.in_dtd:
            misc(m)
        for m in doc.before:
            misc(m)
    walk(root, [])
    if doc is not None:
        for m in doc.after:
            misc(m)
    return lines


# normalise "no namespace": the statement allows absent or the empty URI for an unprefixed element
def canon_content_line(l):
    p = l.split(" ")
    if p[0] == "Q" and p[2] == "x":
        p[2] = "-"
    return " ".join(p)


# ---------------------------------------------------------------------------------------------
# rendering
# ---------------------------------------------------------------------------------------------
def esc_text(s):
    return s.replace("&", "&amp;").replace("<", "&lt;").replace(">", "&gt;").replace("\r", "&#13;")


def esc_attr(s, q):
    s = s.replace("&", "&amp;").replace("<", "&lt;").replace("\t", "&#9;").replace("\n", "&#10;").replace("\r", "&#13;")
    return s.replace(q, "&quot;" if q == '"' else "&apos;")


def qname(p, l):
    return (p + ":" + l) if p else l


def render_plain(e):
    """canonical rendering without layout variation"""
    s = "<" + qname(e.prefix, e.local)
    for p, u in e.decls:
        s += " xmlns%s='%s'" % ((":" + p) if p else "", esc_attr(u, "'"))
    for p, l, v in e.attrs:
        s += " %s='%s'" % (qname(p, l), esc_attr(v, "'"))
    if not e.children:
        return s + "/>"
    s += ">"
    for c in e.children:
        s += render_node_plain(c)
    return s + "</" + qname(e.prefix, e.local) + ">"


def render_node_plain(c):
    if isinstance(c, Elem):
        return render_plain(c)
    if isinstance(c, Text):
        return esc_text(c.value)
    if isinstance(c, Comment):
        return "<!--" + c.text + "-->"
    return "<?" + c.target + ((" " + c.value) if c.value is not None else "") + "?>"


WS = [" ", "\t", "\n", "\r\n", "  ", " \n "]


def rws(rnd, opt=True):
    if opt and rnd.random() < 0.6:
        return ""
    return rnd.choice(WS)


def render_text(s, rnd, in_entity_q=None):
    """a random rendering of logical text s: literals, references, CDATA sections, line ends"""
    out = []
    i = 0
    prev_lit_cr = False
    while i < len(s):
        c = s[i]
        r = rnd.random()
        if c == "\n":
            # a line end: LF, CRLF, CR (only when not followed by a literal LF ...), or a reference
            nxt = s[i + 1] if i + 1 < len(s) else ""
            k = rnd.randint(0, 3)
            if k == 0:
                out.append("\n")
            elif k == 1:
                out.append("\r\n")
            elif k == 2 and nxt != "\n":
                out.append("\r")
                # the next piece must not start with a literal LF: guaranteed since nxt != LF
                # and references / CDATA start with & or <
            else:
                out.append(rnd.choice(["&#10;", "&#xA;", "&#x0a;"]))
            i += 1
            continue
        if c == "\r":
            out.append(rnd.choice(["&#13;", "&#xD;"]))
            i += 1
            continue
        if c in "<&":
            if r < 0.3 and in_entity_q is None:
                # CDATA section holding a run of characters (stop before ]]> and before CR)
                j = i
                while j < len(s) and s[j] != "\r" and j - i < 6 and not s.startswith("]]>", j) and not (j > i and s[j - 1:j + 2] == "]]>"):
                    j += 1
                body = s[i:j]
                if "]]>" not in body and body:
                    out.append("<![CDATA[" + body.replace("\n", rnd.choice(["\n", "\r\n"])) + "]]>")
                    i = j
                    continue
            if in_entity_q is not None:
                # inside a replacement text only the predefined entities (XML 1.0 4.5 / C03's subset)
                out.append({"<": "&lt;", "&": "&amp;"}[c])
            else:
                out.append({"<": rnd.choice(["&lt;", "&#60;", "&#x3C;"]), "&": rnd.choice(["&amp;", "&#38;"])}[c])
            i += 1
            continue
        if c == ">":
            out.append(rnd.choice(["&gt;", "&#62;"]))
            i += 1
            continue
        if c == "]" and r < 0.5:
            out.append("&#93;")
            i += 1
            continue
        if in_entity_q is not None and c in "'\"%":
            out.append({"'": "&apos;", '"': "&quot;", "%": "&#37;"}[c])
            i += 1
            continue
        if r < 0.08:
            out.append("&#%d;" % ord(c) if rnd.random() < 0.5 else "&#x%X;" % ord(c))
        else:
            out.append(c)
        i += 1
    return "".join(out)


def render_attr_value(v, rnd, q, in_entity=False):
    out = []
    for c in v:
        if c in "\t\n\r":
            out.append({"\t": "&#9;", "\n": rnd.choice(["&#10;", "&#xA;"]), "\r": "&#13;"}[c])
        elif c == "<":
            out.append(rnd.choice(["&lt;", "&#60;"]))
        elif c == "&":
            out.append(rnd.choice(["&amp;", "&#38;"]))
        elif c == q or (in_entity and c in "'\"%"):
            out.append({"'": "&apos;", '"': "&quot;", "%": "&#37;"}[c])
        elif c == " " and rnd.random() < 0.3:
            # a literal TAB / LF / CR / CRLF also normalises to one space
            ch = rnd.choice([" ", "\t", "\n", "\r", "\r\n", "&#x20;"])
            if ch.startswith("\n") and out and out[-1].endswith("\r"):
                ch = " "              # CR LF would be one line end
            out.append(ch)
        elif rnd.random() < 0.05:
            out.append("&#%d;" % ord(c))
        else:
            out.append(c)
    return "".join(out)


def hoistable(children):
    """C07's exclusions: no logical CR in text and no logical TAB/LF/CR in an attribute value
    (they can only be written as character references, which XML expands when the entity is
    declared, giving them another meaning)"""
    for c in children:
        if isinstance(c, Text) and "\r" in c.value:
            return False
        if isinstance(c, Elem):
            for _, _, v in c.attrs:
                if any(x in v for x in "\t\n\r"):
                    return False
            for _, u in c.decls:
                if any(x in u for x in "\t\n\r"):
                    return False
            if not hoistable(c.children):
                return False
    return True


def raw_contains(children, q):
    """does a comment or PI below `children` contain the character q (it cannot be escaped there)"""
    for c in children:
        if isinstance(c, Comment) and q in c.text:
            return True
        if isinstance(c, PI) and ((c.value and q in c.value) or q in c.target):
            return True
        if isinstance(c, Elem) and raw_contains(c.children, q):
            return True
    return False


class Renderer:
    def __init__(self, rnd, hoist=False):
        self.rnd = rnd
        self.hoist = hoist
        self.entities = []          # (name, literal quote, value source)
        self.d15 = False            # an attribute with a reference to '<' was put inside entity content

    def elem(self, e, ent_q=None):
        rnd = self.rnd
        s = "<" + qname(e.prefix, e.local)
        items = [("d", d) for d in e.decls] + [("a", a) for a in e.attrs]
        # declarations and attributes may interleave; their relative orders are kept
        order = list(range(len(items)))
        di = [i for i in order if items[i][0] == "d"]
        ai = [i for i in order if items[i][0] == "a"]
        merged = []
        while di or ai:
            if di and (not ai or rnd.random() < 0.5):
                merged.append(di.pop(0))
            else:
                merged.append(ai.pop(0))
        for i in merged:
            kind, it = items[i]
            q = rnd.choice("'\"")
            if ent_q is not None:
                q = '"' if ent_q == "'" else "'"
            s += rws(rnd, opt=False)
            if kind == "d":
                p, u = it
                name = "xmlns" + ((":" + p) if p else "")
                val = render_attr_value(u, rnd, q, ent_q is not None)
            else:
                p, l, v = it
                name = qname(p, l)
                val = self.attr_value(v, q, ent_q)
                if ent_q is not None and ("&lt;" in val or "&#60;" in val):
                    self.d15 = True
            s += name + rws(rnd) + "=" + rws(rnd) + q + val + q
        s += rws(rnd)
        if not e.children and rnd.random() < 0.6:
            return s + "/>"
        s += ">"
        s += self.content(e.children, ent_q)
        return s + "</" + qname(e.prefix, e.local) + rws(rnd) + ">"

    def attr_value(self, v, q, ent_q):
        rnd = self.rnd
        if self.hoist and ent_q is None and v and rnd.random() < 0.4:
            # hoist a substring of the value into an entity (no TAB/LF/CR, no '<': see C07's exclusions)
            a = rnd.randint(0, len(v) - 1)
            b2 = rnd.randint(a + 1, len(v))
            mid = v[a:b2]
            if not any(c in "\t\n\r<&" for c in mid):
                name = "av%d" % len(self.entities)
                lq = rnd.choice("'\"")
                # a logical space may be written as any literal white space inside the entity literal too
                # (3.3.3 applies to replacement text); a lone CR only where no LF can follow it
                src = ""
                for k, c in enumerate(mid):
                    if c == " " and rnd.random() < 0.5:
                        nxt = mid[k + 1] if k + 1 < len(mid) else None
                        src += rnd.choice(["\t", "\n", "\r\n"] + (["\r"] if nxt not in (None, " ") else []))
                    else:
                        src += {"'": "&apos;", '"': "&quot;", "%": "&#37;"}.get(c, c)
                self.entities.append((name, lq, src))
                return render_attr_value(v[:a], rnd, q) + "&" + name + ";" + render_attr_value(v[b2:], rnd, q)
        if self.hoist and ent_q is None and rnd.random() < 0.1:
            k = rnd.randint(0, len(v))
            return render_attr_value(v[:k], rnd, q) + self.empty_entity() + render_attr_value(v[k:], rnd, q)
        return render_attr_value(v, rnd, q, ent_q is not None)

    def content(self, children, ent_q=None):
        rnd = self.rnd
        out = []
        i = 0
        if self.hoist and ent_q is None and children and rnd.random() < 0.1:
            out.append(self.empty_entity())
        while i < len(children):
            if self.hoist and ent_q is None and rnd.random() < 0.3:
                j = rnd.randint(i + 1, len(children))
                lq = rnd.choice("'\"")
                if raw_contains(children[i:j], lq):
                    lq = '"' if lq == "'" else "'"
                if raw_contains(children[i:j], lq) or not hoistable(children[i:j]):
                    out.append(self.node(children[i], ent_q))
                    i += 1
                    continue
                name = "ce%d" % len(self.entities)
                idx = len(self.entities)
                self.entities.append(None)
                src = "".join(self.node(c, lq) for c in children[i:j])
                self.entities[idx] = (name, lq, src)
                out.append("&" + name + ";")
                i = j
                continue
            out.append(self.node(children[i], ent_q))
            i += 1
            if self.hoist and ent_q is None and rnd.random() < 0.1:
                out.append(self.empty_entity())
        return "".join(out)

    def empty_entity(self):
        """a reference to an entity whose replacement text is empty: equivalent to nothing"""
        for (name, lq, src) in [e for e in self.entities if e]:
            if src == "":
                return "&" + name + ";"
        name = "ez%d" % len(self.entities)
        self.entities.append((name, self.rnd.choice("'\""), ""))
        return "&" + name + ";"

    def node(self, c, ent_q=None):
        rnd = self.rnd
        if isinstance(c, Elem):
            return self.elem(c, ent_q)
        if isinstance(c, Text):
            return render_text(c.value, rnd, ent_q)
        if isinstance(c, Comment):
            return "<!--" + c.text + "-->"
        v = c.value
        return "<?" + c.target + ((rnd.choice([" ", "\t", "\n", "  "]) + v) if v is not None else rws(rnd)) + "?>"


def render(doc, rnd, hoist=False, force_dtd=False):
    r = Renderer(rnd, hoist)
    body = r.elem(doc.root)
    s = ""
    if rnd.random() < 0.2:
        s += "﻿"
    if rnd.random() < 0.4:
        q = rnd.choice("'\"")
        s += "<?xml" + rnd.choice([" ", "\t", "\n", "  "]) + "version" + rws(rnd) + "=" + rws(rnd) + q + "1.0" + q
        if rnd.random() < 0.5:
            s += rnd.choice([" ", "\n"]) + "encoding=" + q + "UTF-8" + q
        if rnd.random() < 0.3:
            s += " standalone=" + q + rnd.choice(["yes", "no"]) + q
        s += rws(rnd) + "?>"
    s += rws(rnd)
    need_dtd = bool(r.entities) or bool(doc.in_dtd) or force_dtd
    if need_dtd or (rnd.random() < 0.15 and not getattr(doc, "doctype_free", False)):
        s += "<!DOCTYPE" + rnd.choice([" ", "\n"]) + qname(doc.root.prefix, doc.root.local)
        k = rnd.random()
        if k < 0.2:
            s += " SYSTEM " + rnd.choice(["'a.dtd'", '"a.dtd"'])
        elif k < 0.3:
            s += " PUBLIC '-//X//Y' \"b.dtd\""
        if need_dtd or rnd.random() < 0.5:
            s += rws(rnd) + "["
            decls = []
            for (name, lq, src) in r.entities:
                decls.append("<!ENTITY" + rnd.choice([" ", "\n"]) + name + " " + lq + src + lq + rws(rnd) + ">")
            for m in doc.in_dtd:
                decls.append(r.node(m))
            extra = ["<!ELEMENT a (#PCDATA)>", "<!ATTLIST a b CDATA #IMPLIED>", "<!NOTATION n SYSTEM 'x'>",
                     "<!NOTATION n2 SYSTEM \"o'reilly.cgi\">", "<!NOTATION n3 PUBLIC \"a'b\" 'c\"d'>",
                     "<!NOTATION n4 SYSTEM '>'>", "<!ATTLIST a c CDATA \"x>y\" d CDATA '<!ENTITY hidden \"h\">'>",
                     "<!ENTITY ext2 PUBLIC \"-//o'r//\" 'e\"2.xml'>", "<!ENTITY % pe2 SYSTEM \"p'e.dtd\">",
                     "<!ENTITY % pe 'ignored'>", "<!ENTITY ext SYSTEM 'e.xml'>", "<!ENTITY unp SYSTEM 'u.bin' NDATA n>",
                     "<!ENTITY unused 'never &undefined; used'>"]
            if r.entities and rnd.random() < 0.5:
                # a second declaration of an existing name: the first one wins
                n0 = r.entities[0][0]
                extra.append("<!ENTITY %s 'SECOND'>" % n0)
            for x in extra:
                if rnd.random() < 0.25:
                    decls.append(x)
            # entity declarations keep their order (an entity must be declared before the
            # declaration that is meant to lose); other declarations are inserted anywhere
            ent_decls = [d for d in decls if d.startswith("<!ENTITY") and not d.startswith("<!ENTITY %") and "SECOND" not in d]
            others = [d for d in decls if d not in ent_decls]
            seq = list(ent_decls)
            for o in others:
                if "SECOND" in o:
                    seq.append(o)
                else:
                    seq.insert(rnd.randint(0, len(seq)), o)
            # in_dtd comments / PIs must keep their relative order: re-sort them
            misc_src = [r0 for r0 in seq if r0.startswith("<!--") or r0.startswith("<?")]
            if misc_src:
                want = [d for d in decls if d.startswith("<!--") or d.startswith("<?")]
                it = iter(want)
                seq = [next(it) if (x.startswith("<!--") or x.startswith("<?")) else x for x in seq]
            s += "".join(rws(rnd) + d for d in seq) + rws(rnd) + "]"
        s += rws(rnd) + ">"
    s += rws(rnd)
    for m in doc.before:
        s += r.node(m) + rws(rnd)
    s += body
    for m in doc.after:
        s += rws(rnd) + r.node(m)
    s += rws(rnd)
    return s, r


# ---------------------------------------------------------------------------------------------
# random abstract documents
# ---------------------------------------------------------------------------------------------
NAME_START = ["a", "b", "Z", "_", "À", "Ö", "ø", "˿", "Ͱ", "ͽ", "Ϳ", "῿",
              "‌", "⁰", "↏", "Ⰰ", "、", "퟿", "豈", "﷏", "ﷰ", "�",
              "\U00010000", "\U000effff"]
NAME_REST = ["c", "9", "-", ".", "·", "̀", "ͯ", "‿", "⁀"]
TEXT_ALPHA = ["\u00a0", "\u2003", "a", "b", " ", "\n", "\t", "<", "&", ">", "]", "]]>", "é", "中", "\U0001f600", "'", '"', "\r", "x\ny"]
URIS = ["u", "v", "http://a/b", "urn:x", ""]


def rname(rnd, non_ascii=True):
    pool = NAME_START if non_ascii else NAME_START[:4]
    s = rnd.choice(pool)
    for _ in range(rnd.randint(0, 3)):
        s += rnd.choice((NAME_START + NAME_REST) if non_ascii else (NAME_START[:4] + NAME_REST[:4]))
    if s.lower().startswith("xml"):
        s = "n" + s
    return s


def rtext(rnd):
    return "".join(rnd.choice(TEXT_ALPHA) for _ in range(rnd.randint(1, 6)))


def random_document(rnd, size=10, non_ascii=True, doctype_free=False):
    budget = [size]

    def rmisc():
        if rnd.random() < 0.5:
            t = "".join(rnd.choice(["c", " ", "-x", "<", "&", ">", "\n", "é", "'", '"']) for _ in range(rnd.randint(0, 5)))
            t = t.replace("--", "- ")
            if t.endswith("-"):
                t += " "
            return Comment(t)
        v = None
        if rnd.random() < 0.6:
            v = "".join(rnd.choice(["v", " ", "?", ">", "<", "&", "é", "=", "'", "\u00a0", "\u3000", "\u2028", "\u0085"]) for _ in range(rnd.randint(1, 5))).replace("?>", "? ")
            v = v.lstrip(" ")
            if not v:
                v = None
        return PI(rname(rnd, non_ascii), v)

    def relem(scope_prefixes, depth):
        budget[0] -= 1
        decls = []
        for _ in range(rnd.choice([0, 0, 0, 1, 1, 2])):
            p = rnd.choice(["", "p", "q", "r"])
            if p in [d[0] for d in decls]:
                continue
            u = rnd.choice(URIS)
            decls.append((p, u))
        avail = sorted(set(scope_prefixes) | set(p for p, _ in decls if p))
        prefix = rnd.choice([""] * 3 + avail + (["xml"] if rnd.random() < 0.05 else []))
        attrs = []
        seen = set()
        for _ in range(rnd.choice([0, 0, 1, 1, 2, 4])):
            ap = rnd.choice([""] * 3 + avail + ["xml"])
            al = rname(rnd, non_ascii)
            if al == "xmlns" or (ap, al) in seen:
                continue
            seen.add((ap, al))
            attrs.append((ap, al, "".join(rnd.choice(["a", " ", "\t", "\n", "\r", "<", "&", "'", '"', "é", "  "]) for _ in range(rnd.randint(0, 5)))))
        children = []
        if depth < 6:
            for _ in range(rnd.randint(0, 4)):
                if budget[0] <= 0:
                    break
                k = rnd.random()
                if k < 0.4:
                    children.append(relem(avail, depth + 1))
                elif k < 0.75:
                    # adjacent text is one run (one Text item)
                    if children and isinstance(children[-1], Text):
                        children[-1] = Text(children[-1].value + rtext(rnd))
                    else:
                        children.append(Text(rtext(rnd)))
                    budget[0] -= 1
                else:
                    children.append(rmisc())
                    budget[0] -= 1
        return Elem(prefix, rname(rnd, non_ascii), attrs, decls, children)

    root = relem([], 0)
    d = Doc(root,
            before=[rmisc() for _ in range(rnd.choice([0, 0, 1, 2]))],
            after=[rmisc() for _ in range(rnd.choice([0, 0, 1]))],
            in_dtd=[] if doctype_free else [rmisc() for _ in range(rnd.choice([0, 0, 0, 1]))])
    d.doctype_free = doctype_free
    # same URI under two prefixes can make two attributes collide by expanded name: regenerate then
    if not well_scoped(root):
        return random_document(rnd, size, non_ascii, doctype_free)
    return d
