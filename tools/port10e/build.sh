#!/bin/bash
# regenerate (port.py) and compile the stage-10 accounting chain in order, stop at the first failure:  build.sh [first-file]
# needs the stage-10 chain (tools/port10s/build.sh), the 6e / 6r chains, CstSound8Cor and the CR chain (tools/portcr/build.sh) compiled.
cd /verif/coq; mkdir -p /tmp/s10e/log
python3 /verif/tools/port10e/port.py || exit 1
python3 /verif/tools/port10e/portcre.py || exit 1
ORDER="All AllIncl 10ebLv 10eNest 10eBText 10eBMain 10eRDoc 10eCor 10eS8Nest 10eS8BText 10eS8BMain 10eS8RDoc AllCrBText AllCrBMain AllCrRDoc AllCor"
start=${1:-All}; go=0
for f in $ORDER; do
  [ "$f" = "$start" ] && go=1
  [ $go = 1 ] || continue
  s=$(date +%s)
  if ! timeout 1800 coqc -Q . RX Proofs/CstSound$f.v > /tmp/s10e/log/$f.log 2>&1; then echo "FAIL CstSound$f ($(( $(date +%s)-s )) s)"; grep -v conda /tmp/s10e/log/$f.log | tail -40; exit 1; fi
  echo "ok CstSound$f ($(( $(date +%s)-s )) s)"
done
