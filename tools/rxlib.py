"""Shared machinery of the roxmltree checks: builds, running model and implementation on a
cases file, comparing dumps by projection, evidence and replay files."""
import fcntl, hashlib, json, os, re, subprocess, sys, time

VERIF = os.path.dirname(os.path.dirname(os.path.abspath(__file__)))
REPO = os.environ.get("VERIF_REPO", "/repo")
BUILD = os.path.join(VERIF, "build")
COQ = os.path.join(VERIF, "coq")
HARNESS = os.path.join(VERIF, "harness")
OCAMLB = os.path.join(BUILD, "ocaml")
U32MAX = 4294967295
NCPU = min(16, os.cpu_count() or 4)

ENV = dict(os.environ)
ENV["CARGO_NET_OFFLINE"] = "true"
ENV.setdefault("CARGO_TERM_COLOR", "never")


def log(*a):
    print(*a, file=sys.stderr, flush=True)


def run(cmd, cwd=None, timeout=None, env=None, check=False, capture=True):
    p = subprocess.run(cmd, cwd=cwd, timeout=timeout, env=env or ENV,
                       stdout=subprocess.PIPE if capture else None,
                       stderr=subprocess.STDOUT if capture else None, text=True)
    out = p.stdout or ""
    out = "\n".join(l for l in out.splitlines() if not l.startswith("WARNING conda"))
    if check and p.returncode != 0:
        raise BuildError("command failed (%d): %s\n%s" % (p.returncode, " ".join(cmd), out[-4000:]))
    return p.returncode, out


class BuildError(Exception):
    pass


class TieLost(Exception):
    pass


class Lock:
    def __init__(self, name):
        os.makedirs(BUILD, exist_ok=True)
        self.path = os.path.join(BUILD, name + ".lock")

    def __enter__(self):
        self.f = open(self.path, "w")
        fcntl.flock(self.f, fcntl.LOCK_EX)
        return self

    def __exit__(self, *a):
        fcntl.flock(self.f, fcntl.LOCK_UN)
        self.f.close()


def sha(path):
    h = hashlib.sha256()
    with open(path, "rb") as f:
        h.update(f.read())
    return h.hexdigest()


# --------------------------------------------------------------------------------------------
# builds
# --------------------------------------------------------------------------------------------
def gen_tables():
    rc, out = run([sys.executable, os.path.join(VERIF, "tools", "gen_tables.py"), os.path.join(COQ, "Generated.v")])
    if rc == 3:
        raise TieLost(out.strip())
    if rc != 0:
        raise BuildError("gen_tables failed:\n" + out)
    return out.strip()


def coq_make(targets=None, timeout=1500):
    """full .vo build of the model and proofs (incremental)"""
    if not os.path.exists(os.path.join(COQ, "Makefile")):
        run(["coq_makefile", "-f", "_CoqProject", "-o", "Makefile"], cwd=COQ, check=True)
    cmd = ["timeout", str(timeout), "make", "-j%d" % NCPU]
    if targets:
        cmd += targets
    rc, out = run(cmd, cwd=COQ)
    return rc, out


def model_targets():
    return ["Generated.vo"] + sorted("Model/" + f[:-2] + ".vo" for f in os.listdir(os.path.join(COQ, "Model")) if f.endswith(".v"))


def model_sources():
    return sorted(os.path.join(COQ, "Model", f) for f in os.listdir(os.path.join(COQ, "Model")) if f.endswith(".v")) + \
        [os.path.join(COQ, "Generated.v"), os.path.join(COQ, "Extract.v"), os.path.join(VERIF, "ocaml", "driver.ml")]


def build_model_driver():
    """extract the model to OCaml and build the driver, when any source changed"""
    os.makedirs(OCAMLB, exist_ok=True)
    stamp = os.path.join(OCAMLB, "stamp")
    cur = hashlib.sha256("".join(sha(p) for p in model_sources()).encode()).hexdigest()
    if os.path.exists(stamp) and open(stamp).read() == cur and os.path.exists(os.path.join(OCAMLB, "driver")):
        return False
    run(["timeout", "600", "coqc", "-Q", COQ, "RX", os.path.join(COQ, "Extract.v")], cwd=OCAMLB, check=True)
    run(["cp", os.path.join(VERIF, "ocaml", "driver.ml"), OCAMLB], check=True)
    run(["ocamlfind", "ocamlopt", "-O2", "-w", "-a", "model.mli", "model.ml", "driver.ml", "-o", "driver"],
        cwd=OCAMLB, check=True)
    with open(stamp, "w") as f:
        f.write(cur)
    return True


HOOK_CFG = "--cfg roxmltree_verif"


def build_harness(profile="release", features=None, target_dir=None):
    """build the Rust harness against /repo's current working tree"""
    lock = os.path.join(REPO, "Cargo.lock")
    if os.path.exists(lock):
        dst = os.path.join(HARNESS, "Cargo.lock")
        if not os.path.exists(dst):
            run(["cp", lock, dst])
    cmd = ["cargo", "build", "--offline", "--bin", "rxharness"]
    if profile == "release":
        cmd.append("--release")
    td = target_dir or os.path.join(HARNESS, "target")
    cmd += ["--target-dir", td]
    if features is not None:
        cmd += ["--no-default-features"]
        if features:
            cmd += ["--features", ",".join(features)]
    env = dict(ENV)
    env["RUSTFLAGS"] = (env.get("RUSTFLAGS", "") + " " + HOOK_CFG).strip()
    rc, out = run(["timeout", "900"] + cmd, cwd=HARNESS, env=env)
    if rc != 0:
        raise BuildError("harness build failed:\n" + out[-6000:])
    return os.path.join(td, "release" if profile == "release" else "debug", "rxharness")


# --------------------------------------------------------------------------------------------
# properties: theorems, assumptions, scans
# --------------------------------------------------------------------------------------------
FORBIDDEN = re.compile(r"\b(Admitted|admit|Axiom|Axioms|Parameter|Parameters|Conjecture|Hypothesis|Variable)\b|Unset\s+Guard|bypass_check|Admit\s+Obligations|-type-in-type|impredicative-set")


def scan_sources():
    """no Admitted / admit / Axiom / Parameter / ... anywhere in the development.
    `Variable` is allowed inside Section ... End only."""
    bad = []
    # the development is what _CoqProject lists (plus Extract.v); files an author is still working on
    # and has not registered there are not compiled by any check and are not part of it
    listed = set()
    try:
        for l in open(os.path.join(COQ, "_CoqProject"), encoding="utf-8"):
            l = l.strip()
            if l.endswith(".v"):
                listed.add(os.path.normpath(os.path.join(COQ, l)))
    except OSError:
        listed = None
    for root, _, files in os.walk(COQ):
        for f in files:
            if not f.endswith(".v"):
                continue
            p = os.path.join(root, f)
            if listed is not None and os.path.normpath(p) not in listed and f != "Extract.v":
                continue
            depth = 0
            in_comment = 0
            for ln, line in enumerate(open(p, encoding="utf-8"), 1):
                # strip comments (nesting-aware, line based)
                out = ""
                i = 0
                while i < len(line):
                    if line.startswith("(*", i):
                        in_comment += 1
                        i += 2
                    elif line.startswith("*)", i) and in_comment:
                        in_comment -= 1
                        i += 2
                    else:
                        if not in_comment:
                            out += line[i]
                        i += 1
                if re.match(r"\s*Section\b", out):
                    depth += 1
                if re.match(r"\s*End\b", out) and depth:
                    depth -= 1
                for m in FORBIDDEN.finditer(out):
                    w = m.group(0)
                    if w in ("Variable", "Hypothesis") and depth > 0:
                        continue
                    bad.append("%s:%d: %s" % (os.path.relpath(p, VERIF), ln, out.strip()))
    return bad


ALLOWED_AXIOMS = set()   # nothing: every property theorem must be closed under the global context


def check_property_file(pid, timeout=900):
    """compile coq/Properties/<pid>.v with coqc, return (ok, theorems, problems, output).
    The file ends every theorem with `Print Assumptions`; anything but
    'Closed under the global context' is a problem."""
    src = os.path.join(COQ, "Properties", pid + ".v")
    if not os.path.exists(src):
        return True, [], [], ""
    # The output of this compilation (the Print Assumptions lines) is a function of Properties/<pid>.v and of the compiled
    # files it loads; `make` has just brought Properties/<pid>.vo up to date and rewrites it whenever anything it depends on
    # changed.  So the output is cached under the pair (contents of the .v, identity of the up-to-date .vo) and recomputed
    # whenever either differs -- a compile of a large property file costs a minute.
    vo = src + "o"
    cache = os.path.join(BUILD, "pa", pid + ".json")

    def key():
        try:
            st = os.stat(vo)
            return hashlib.sha256(open(src, "rb").read()).hexdigest() + ":%d:%d" % (st.st_mtime_ns, st.st_size)
        except OSError:
            return None
    rc, out = None, None
    try:
        c = json.load(open(cache))
        if c.get("key") and c["key"] == key() and c.get("rc") == 0:
            rc, out = 0, c["out"]
    except (OSError, ValueError):
        pass
    if rc is None:
        rc, out = run(["timeout", str(timeout), "coqc", "-Q", COQ, "RX", src], cwd=COQ)
        if rc == 0 and key():
            os.makedirs(os.path.dirname(cache), exist_ok=True)
            with open(cache, "w") as f:
                json.dump({"key": key(), "rc": rc, "out": out}, f)
    problems = []
    if rc != 0:
        problems.append("coqc failed on Properties/%s.v: %s" % (pid, out[-1500:]))
    text = open(src, encoding="utf-8").read()
    theorems = re.findall(r"^\s*(?:Theorem|Corollary)\s+(\w+)", text, re.M)
    n_pa = len(re.findall(r"^\s*Print\s+Assumptions\s+(\w+)", text, re.M))
    closed = out.count("Closed under the global context")
    if rc == 0:
        if n_pa < len(theorems):
            problems.append("Properties/%s.v: %d theorems but only %d Print Assumptions" % (pid, len(theorems), n_pa))
        if closed != n_pa:
            # list the axioms printed
            ax = [l for l in out.splitlines() if l.strip() and not l.startswith(" ") and ":" in l and "Closed" not in l]
            problems.append("Properties/%s.v: %d of %d theorems closed under the global context; reported: %s" % (pid, closed, n_pa, "; ".join(ax)[:800]))
    return (not problems), theorems, problems, out


# --------------------------------------------------------------------------------------------
# cases, running, comparing
# --------------------------------------------------------------------------------------------
def hexs(b):
    return "x" + b.hex()


class Case:
    __slots__ = ("flags", "dtd", "limit", "data", "meta")

    def __init__(self, data, flags="", dtd=True, limit=U32MAX, meta=None):
        if isinstance(data, str):
            data = data.encode("utf-8")
        self.data = data
        self.flags = flags or "-"
        self.dtd = dtd
        self.limit = limit
        self.meta = meta

    def line(self, idx):
        return "%d %s %d %d %s" % (idx, self.flags, 1 if self.dtd else 0, self.limit, hexs(self.data))

    def describe(self):
        return {"input": self.data.decode("utf-8", "replace"), "input_hex": self.data.hex(), "flags": self.flags,
                "allow_dtd": self.dtd, "nodes_limit": self.limit, "meta": self.meta}


def write_cases(cases, path, start=0):
    with open(path, "w") as f:
        for i, c in enumerate(cases):
            f.write(c.line(start + i))
            f.write("\n")


def parse_dump(text):
    """dump text -> {idx: [lines without idx]}"""
    d = {}
    for line in text.splitlines():
        if not line:
            continue
        sp = line.find(" ")
        k = line[:sp]
        d.setdefault(k, []).append(line[sp + 1:])
    return d


def run_sharded(binary, args_before, cases, workdir, tag, nshards=NCPU, timeout=1200, _depth=0):
    """split cases into shards, run `binary args_before <shardfile>` on each in parallel,
    return {idx(int): [lines]}"""
    os.makedirs(workdir, exist_ok=True)
    n = len(cases)
    if n == 0:
        return {}
    nshards = max(1, min(nshards, (n + 199) // 200))
    per = (n + nshards - 1) // nshards
    procs = []
    for s in range(nshards):
        lo, hi = s * per, min(n, (s + 1) * per)
        if lo >= hi:
            break
        path = os.path.join(workdir, "%s.cases.%d" % (tag, s))
        write_cases(cases[lo:hi], path, start=lo)
        outp = os.path.join(workdir, "%s.out.%d" % (tag, s))
        fo = open(outp, "w")
        p = subprocess.Popen(["timeout", str(timeout), binary] + args_before + [path], stdout=fo, stderr=subprocess.DEVNULL, env=ENV)
        procs.append((p, fo, outp, lo, hi))
    res = {}
    for p, fo, outp, lo, hi in procs:
        rc = p.wait()
        fo.close()
        if rc != 0 and _depth < 6:
            # the process died (abort, stack overflow, time-out): its buffered output is unreliable.
            # Locate the culprit(s) by bisection, then run the rest without them.
            sub = _run_crashy(binary, args_before, cases, lo, hi, workdir, tag, timeout, _depth)
            res.update(sub)
            continue
        with open(outp) as f:
            d = parse_dump(f.read())
        for k, v in d.items():
            try:
                res[int(k)] = v
            except ValueError:
                pass
        if rc != 0:
            for i in range(lo, hi):
                res.setdefault(i, ["R crashed rc=%d" % rc])
    for i in range(n):
        res.setdefault(i, ["R missing"])
    return res


def _run_one(binary, args_before, cases, lo, hi, workdir, tag, timeout):
    path = os.path.join(workdir, "%s.bisect.cases" % tag)
    write_cases(cases[lo:hi], path, start=lo)
    p = subprocess.run(["timeout", str(timeout), binary] + args_before + [path], stdout=subprocess.PIPE, stderr=subprocess.DEVNULL, env=ENV)
    return p.returncode, p.stdout.decode("utf-8", "replace")


def _run_crashy(binary, args_before, cases, lo, hi, workdir, tag, timeout, depth):
    """results for cases[lo:hi] when running them together kills the process"""
    res = {}
    todo = [(lo, hi)]
    culprits = 0
    while todo:
        a, b2 = todo.pop()
        rc, out = _run_one(binary, args_before, cases, a, b2, workdir, tag, timeout)
        if rc == 0:
            for k, v in parse_dump(out).items():
                try:
                    res[int(k)] = v
                except ValueError:
                    pass
        elif b2 - a == 1:
            res[a] = ["R crashed rc=%d" % rc]
            culprits += 1
        elif culprits > 8:
            for i in range(a, b2):
                res[i] = ["R crashed rc=%d (not bisected)" % rc]
        else:
            m = (a + b2) // 2
            todo.append((m, b2))
            todo.append((a, m))
    for i in range(lo, hi):
        res.setdefault(i, ["R missing"])
    return res


def project(lines, sections):
    """keep the lines whose first field is in `sections` (None = all)"""
    # ED (the position the Display text of an error ends with) exists on the implementation side only
    if sections is None:
        return [l for l in lines if not l.startswith("ED ")]
    return [l for l in lines if l.split(" ", 1)[0] in sections]


def result_class(lines):
    for l in lines:
        if l.startswith("R "):
            return l.split(" ")[1]
    return "none"


# --------------------------------------------------------------------------------------------
# evidence / replay / known findings
# --------------------------------------------------------------------------------------------
def known_findings():
    p = os.path.join(VERIF, "known_findings.json")
    if not os.path.exists(p):
        return {"known": [], "fixed": []}
    return json.load(open(p))


def write_replay(pid, name, obj):
    d = os.path.join(VERIF, "replays")
    os.makedirs(d, exist_ok=True)
    p = os.path.join(d, "%s-%s.json" % (pid, name))
    with open(p, "w") as f:
        json.dump(obj, f, indent=1, ensure_ascii=False)
    return p


def write_evidence(pid, ev):
    d = os.path.join(VERIF, "evidence")
    os.makedirs(d, exist_ok=True)
    p = os.path.join(d, pid + ".json")
    tmp = p + ".tmp"
    with open(tmp, "w") as f:
        json.dump(ev, f, indent=1, ensure_ascii=False)
    os.replace(tmp, p)
    return p


# --------------------------------------------------------------------------------------------
# extraction spot check: the same digest evaluated inside Coq (vm_compute) and by the extracted code
# --------------------------------------------------------------------------------------------
def extraction_spot_check(cases, workdir, limit=40):
    """returns (n_checked, mismatches)"""
    os.makedirs(workdir, exist_ok=True)
    small = [c for c in cases if len(c.data) <= 120][:limit]
    if not small:
        return 0, []
    vpath = os.path.join(workdir, "cases_digest.v")
    with open(vpath, "w") as f:
        f.write("From Coq Require Import List NArith.\nImport ListNotations.\nFrom RX.Model Require Import Base Builder Summary.\nOpen Scope N_scope.\nSet Printing Width 1000000.\nSet Printing Depth 1000000.\n")
        for i, c in enumerate(small):
            bs = "; ".join(str(x) for x in c.data)
            f.write("Eval vm_compute in (%d, summary [%s] {| allow_dtd := %s; nodes_limit := %d |}).\n" % (i, bs, "true" if c.dtd else "false", c.limit))
    rc, out = run(["timeout", "300", "coqc", "-Q", COQ, "RX", vpath], cwd=workdir)
    if rc != 0:
        return 0, ["coqc failed on the digest file: " + out[-500:]]
    coq = {}
    flat = " ".join(out.split())
    for m in re.finditer(r"= \((\d+), \[([^\]]*)\]\)", flat):
        coq[int(m.group(1))] = [int(x) for x in m.group(2).replace(" ", "").split(";") if x]
    cpath = os.path.join(workdir, "digest.cases")
    write_cases(small, cpath)
    rc, out = run([os.path.join(OCAMLB, "driver"), "summary", cpath])
    ext = {}
    for line in out.splitlines():
        f = line.split(" ")
        if len(f) >= 2 and f[1] == "SUM":
            ext[int(f[0])] = [int(x) for x in f[2:]]
    mism = []
    for i in range(len(small)):
        if coq.get(i) != ext.get(i):
            mism.append("case %d (%r): Coq %s, extracted %s" % (i, small[i].data[:60], str(coq.get(i))[:80], str(ext.get(i))[:80]))
    return len(small), mism
