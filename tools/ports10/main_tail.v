(* ------------------------------------------------------------------------------------------ *)
(* S9 inside S10                                                                              *)
(* ------------------------------------------------------------------------------------------ *)
Lemma charref_10 p : E.charref_ok_in_value p = true -> charref_ok10 p = true.
Proof.
  destruct p as [cs|hex ds|e|cs]; try (intros _; reflexivity).
  cbn [E.charref_ok_in_value charref_ok10]. cbv zeta. intros H. lia.
Qed.

(* the new condition is the old one plus the references to '&' and '<' *)
Lemma charref_ok10_spec p :
  charref_ok10 p = E.charref_ok_in_value p ||
                   match p with T.PCharRef hex ds => (T.ref_val hex ds =? 38) || (T.ref_val hex ds =? 60) | _ => false end.
Proof.
  destruct p as [cs|hex ds|e|cs]; try reflexivity.
  cbn [E.charref_ok_in_value charref_ok10]. cbv zeta. lia.
Qed.

Lemma uepiece_10 q cd ch iv p : CstFullS9.wf_uepiece9 q cd ch iv p = true -> wf_uepiece10 q cd ch iv p = true.
Proof.
  destruct p as [[cs|hex ds|e|cs]|n]; cbn [CstFullS9.wf_uepiece9 wf_uepiece10]; try (intros H; exact H).
  all: rewrite !andb_true_iff; intros [H1 H2]; split; [exact H1|]; destruct iv; [apply charref_10; exact H2|reflexivity].
Qed.

Lemma uepieces_10 q cd ch iv ps : CstFullS9.wf_uepieces9 q cd ch iv ps = true -> wf_uepieces10 q cd ch iv ps = true.
Proof.
  unfold CstFullS9.wf_uepieces9, wf_uepieces10. rewrite !andb_true_iff. intros [H1 H2]. split; [|exact H2].
  revert H1. apply CstLex.forallb_imp. intros p. apply uepiece_10.
Qed.

Lemma uentry_10 m e : CstFullS9.wf_uentry9 m e = true -> wf_uentry10 m e = true.
Proof.
  unfold CstFullS9.wf_uentry9, wf_uentry10. rewrite !andb_true_iff. intros [[H1 H2] H3]. repeat split; try assumption. apply uepieces_10. exact H2.
Qed.

Lemma uentries_10 m a : forallb (CstFullS9.wf_uentry9 m) a = true -> forallb (wf_uentry10 m) a = true.
Proof. apply CstLex.forallb_imp. intros e. apply uentry_10. Qed.

Lemma uitem_10 m : forall i, CstFullS9.wf_uitem9 m i = true -> wf_uitem10 m i = true.
Proof.
  intros i. induction i as [n a w|n a w cs w2 IH|r|bs|t s v] using fitem_ind; intros H.
  - cbn [CstFullS9.wf_uitem9 wf_uitem10] in *. rewrite !andb_true_iff in H |- *. destruct H as [[[Hn Ha] Hw] _].
    repeat split; try assumption. apply uentries_10. exact Ha.
  - rewrite CstFullS9Text.wf_uitem_elem in H. rewrite wf_uitem_elem. rewrite !andb_true_iff in H |- *. destruct H as [[[Hn Ha] Hw] [[Hw2 Hna] Hcs]].
    repeat split; try assumption; [apply uentries_10; exact Ha|].
    clear - IH Hcs. induction IH as [|c r Hc _ IHr]; [reflexivity|]. cbn [CstFullS9Text.wf_uitems wf_uitems] in *.
    apply andb_true_iff in Hcs. destruct Hcs as [H1 H2]. rewrite (Hc H1), (IHr H2). reflexivity.
  - cbn [CstFullS9.wf_uitem9 wf_uitem10] in *. rewrite !andb_true_iff in H |- *. destruct H as [H1 H2]. split; [exact H1|apply uepieces_10; exact H2].
  - exact H.
  - exact H.
Qed.

Lemma xdecl_10 e : CstFullS9.wf_xdecl9 e = true -> wf_xdecl10 e = true.
Proof.
  unfold CstFullS9.wf_xdecl9, wf_xdecl10, CstFullS9.wf_xvalue9, wf_xvalue10. rewrite !andb_true_iff. intros [[[[[[H0 H1] Hn] H2] Hq] [Hv1 Hv2]] H3].
  repeat split; try assumption.
  destruct (x_value e) as [ps|its]; [apply uepieces_10; exact Hv2|]. apply andb_true_iff in Hv2. destruct Hv2 as [A B0]. rewrite B0, andb_true_r.
  revert A. apply CstLex.forallb_imp. intros i. apply uitem_10.
Qed.

Lemma sdecl_10 s : CstFullS9.wf_sdecl9 s = true -> wf_sdecl10 s = true.
Proof. destruct s as [e|s]; cbn [CstFullS9.wf_sdecl9 wf_sdecl10]; [apply xdecl_10|intros H; exact H]. Qed.

Lemma doctype_10 t : CstFullS9.wf_doctype9 t = true -> wf_doctype10 t = true.
Proof.
  unfold CstFullS9.wf_doctype9, wf_doctype10. rewrite !andb_true_iff. intros [[[[H1 H2] H3] H4] H5].
  repeat split; try assumption.
  destruct (z_subset t) as [u|]; [|reflexivity]. cbn [wf_opt] in *. unfold CstFullS9.wf_subset9, wf_subset10 in *. rewrite !andb_true_iff in *.
  destruct H5 as [[A B0] C0]. repeat split; try assumption. revert A. apply CstLex.forallb_imp. exact sdecl_10.
Qed.

(* the documents of stage S9 are documents of stage S10: the same document, so the same rendering and the same meaning *)
Theorem s9_in_s10 : forall d : CstFullS9.S9.doc, CstFullS9.S9.wf_doc d = true ->
  S10.wf_doc d = true /\ S10.render d = CstFullS9.S9.render d /\ S10.sem d = CstFullS9.S9.sem d /\ S10.has_dtd d = CstFullS9.S9.has_dtd d.
Proof.
  intros d Hwf. split; [|repeat split; reflexivity].
  unfold CstFullS9.S9.wf_doc in Hwf. unfold S10.wf_doc. rewrite !andb_true_iff in Hwf |- *.
  destruct Hwf as [[[[[[[H1 H2] H3] H4] H5] H6] H7] H8]. repeat split; try assumption.
  - destruct (S6.x_dtd d) as [g|]; [|reflexivity]. cbn [wf_opt] in *. unfold CstFullS9.S9.wf_dtd_part, S10.wf_dtd_part in *.
    rewrite !andb_true_iff in *. destruct H2 as [[A B0] C0]. repeat split; [exact A|exact B0|apply doctype_10; exact C0].
  - destruct (d_root (S6.x_main d)); try discriminate. apply uitem_10. exact H6.
Qed.
Print Assumptions s9_in_s10.
