"""Direct oracles: decide from the implementation's dump of one case whether the property
fails on that input.  Each returns None (holds) or a short string (what fails).  They are the
search's judge; a correspondence difference alone is never called a failing input."""
import spec
from rxlib import result_class


def sec(lines, name):
    return [l.split(" ") for l in lines if l.startswith(name + " ")]


def unhex(h):
    return bytes.fromhex(h[1:]) if h != "-" else None


# ---- C01 -------------------------------------------------------------------------------------
def o_total(case, lines):
    c = result_class(lines)
    if c in ("ok", "err"):
        return None
    return "parse did not return Ok/Err: " + " | ".join(lines[:2])


# ---- C02 -------------------------------------------------------------------------------------
def tree_from_N(lines):
    rows = sec(lines, "N")
    nodes = []
    for r in rows:
        nodes.append({"id": int(r[1]), "kind": r[2], "parent": int(r[3]), "prev": int(r[4]), "next": int(r[5]),
                      "first": int(r[6]), "last": int(r[7]), "ndesc": int(r[8])})
    return nodes


def o_wf_tree(case, lines):
    if result_class(lines) != "ok":
        return None
    nodes = tree_from_N(lines)
    n = len(nodes)
    if n == 0:
        return "no nodes"
    for i, nd in enumerate(nodes):
        if nd["id"] != i:
            return "ids not dense at %d" % i
    if nodes[0]["kind"] != "R" or nodes[0]["parent"] != -1:
        return "node 0 is not a parentless Root"
    nk = sec(lines, "NK")
    if nk and nk[0][1] != "0":
        return "%s disagreements between is_root / is_element / is_pi / is_comment / is_text, NodeId conversions, text_storage / tail_storage, pi() and node_type() / id() / text() / tail()" % nk[0][1]
    children = [[] for _ in range(n)]
    for nd in nodes[1:]:
        p = nd["parent"]
        if nd["kind"] == "R":
            return "second Root node %d" % nd["id"]
        if p < 0 or p >= nd["id"]:
            return "node %d: parent %d not an earlier node" % (nd["id"], p)
        if nodes[p]["kind"] not in "RE":
            return "node %d has a child but is %s" % (p, nodes[p]["kind"])
        children[p].append(nd["id"])
    # pre-order: the subtree of i is the id interval [i, i + size)
    size = [1] * n
    for i in range(n - 1, 0, -1):
        size[nodes[i]["parent"]] += size[i]
    for i, nd in enumerate(nodes):
        ch = children[i]
        exp_first = ch[0] if ch else -1
        exp_last = ch[-1] if ch else -1
        if nd["first"] != exp_first or nd["last"] != exp_last:
            return "node %d: first/last child %d/%d, tree says %d/%d" % (i, nd["first"], nd["last"], exp_first, exp_last)
        if nd["ndesc"] != size[i]:
            return "node %d: descendants().count() = %d, subtree size %d" % (i, nd["ndesc"], size[i])
        pos = i + 1
        for k, c in enumerate(ch):
            if c != pos:
                return "node %d: child %d is not at pre-order position %d" % (i, c, pos)
            pos += size[c]
            exp_prev = ch[k - 1] if k > 0 else -1
            exp_next = ch[k + 1] if k + 1 < len(ch) else -1
            if nodes[c]["prev"] != exp_prev or nodes[c]["next"] != exp_next:
                return "node %d: prev/next sibling %d/%d, tree says %d/%d" % (c, nodes[c]["prev"], nodes[c]["next"], exp_prev, exp_next)
            if k > 0 and nodes[c]["kind"] == "T" and nodes[ch[k - 1]]["kind"] == "T":
                return "adjacent text siblings %d, %d" % (ch[k - 1], c)
    if nodes[0]["prev"] != -1 or nodes[0]["next"] != -1:
        return "root has siblings"
    if sum(1 for c in children[0] if nodes[c]["kind"] == "E") != 1:
        return "root has %d element children" % sum(1 for c in children[0] if nodes[c]["kind"] == "E")
    if any(nodes[c]["kind"] == "T" for c in children[0]):
        return "text node directly under the root"
    return None


# ---- content against the generator's expectation (C03..C07) ------------------------------------
CONTENT = ("Q", "A", "S", "K", "C", "X")


def content_lines(lines, kinds=CONTENT):
    return [spec.canon_content_line(l) for l in lines if l.split(" ", 1)[0] in kinds]


def o_expected_content(kinds):
    def f(case, lines):
        m = case.meta or {}
        if m.get("wellformed") and result_class(lines) != "ok":
            return "well-formed document rejected (%s): %s" % (m["wellformed"], " ".join(lines[1:2]))
        if "expect_content" not in m:
            return None
        exp = m["expect_content"]
        cls = result_class(lines)
        if exp is None:
            return None if cls == "err" else "namespace-ill-formed document accepted"
        if m.get("d15"):
            return None
        if cls != "ok":
            return "well-formed document rejected: " + " ".join(lines[1:2])
        exp = [spec.canon_content_line(l) for l in exp if l.split(" ", 1)[0] in kinds]
        got = content_lines(lines, kinds)
        if got != exp:
            for a, b in zip(got, exp):
                if a != b:
                    return "content differs: got [%s] expected [%s]" % (a, b)
            return "content differs in length: got %d lines, expected %d" % (len(got), len(exp))
        return None
    return f


def o_text_pieces(case, lines):
    m = case.meta or {}
    if "expect_text" not in m:
        return None
    if result_class(lines) != "ok":
        return "accepted text run rejected: " + " ".join(lines[1:2])
    xs = [unhex(r[2]).decode("utf-8") for r in sec(lines, "X")]
    exp = m["expect_text"]
    want = [exp] if exp != "" else []
    if exp == "" and xs == [""] and "<![CDATA[" in m.get("src", ""):
        # a run whose only content is empty CDATA sections: an empty Text node is accepted
        # (the statement speaks about the decoding of the run, which is empty either way)
        xs = []
    if xs != want:
        return "text nodes %r, expected %r" % (xs, want)
    return o_wf_tree(case, lines)


def o_attr_pieces(case, lines):
    m = case.meta or {}
    if "expect_attr" not in m:
        return None
    if result_class(lines) != "ok":
        return "accepted attribute value rejected: " + " ".join(lines[1:2])
    a = sec(lines, "A")
    if len(a) != 1:
        return "%d attributes, expected 1" % len(a)
    v = unhex(a[0][5]).decode("utf-8")
    if v != m["expect_attr"]:
        return "attribute value %r, expected %r" % (v, m["expect_attr"])
    return None


def o_misc_verbatim(case, lines):
    """comment text and PI target / value are the exact source strings: each must occur verbatim between its delimiters"""
    m = case.meta or {}
    if not m.get("misc_verbatim"):
        return None
    if result_class(lines) != "ok":
        return "well-formed document rejected: " + " ".join(lines[1:2])
    n_c = 0
    for r in sec(lines, "C"):
        n_c += 1
        if b"<!--" + unhex(r[2]) + b"-->" not in case.data:
            return "comment text %r is not the source string between '<!--' and '-->'" % unhex(r[2])
    for r in sec(lines, "K"):
        n_c += 1
        val = unhex(r[3]) if len(r) > 3 and r[3] != "-" else b""
        if b"<?" + unhex(r[2]) + (b" " + val if val else b"") + b"?>" not in case.data:
            return "PI target / value %r %r are not the source strings" % (unhex(r[2]), val)
    if n_c == 0:
        return "no comment or PI node found"
    return None


# ---- C08 -------------------------------------------------------------------------------------
def o_must_reject(case, lines):
    m = case.meta or {}
    if m.get("illformed"):
        if result_class(lines) == "ok":
            return "ill-formed document accepted (%s)" % m["illformed"]
    if m.get("wellformed"):
        if result_class(lines) != "ok":
            return "well-formed document rejected (%s): %s" % (m["wellformed"], " ".join(lines[1:2]))
    return None


# ---- C09 -------------------------------------------------------------------------------------
def o_entities(case, lines):
    m = case.meta or {}
    cls = result_class(lines)
    if cls not in ("ok", "err"):
        return "not total"
    e = m.get("expect")
    if e == "EntityReferenceLoop":
        if cls == "ok":
            return "expansion beyond the documented limits accepted"
        if not any(l.startswith("E EntityReferenceLoop") for l in lines):
            return "expected EntityReferenceLoop, got " + " ".join(lines[1:2])
    elif e == "ok":
        if cls != "ok":
            return "expansion within the documented limits rejected: " + " ".join(lines[1:2])
        vals = [unhex(r[2]) for r in sec(lines, "X")] + [unhex(r[5]) for r in sec(lines, "A")]
        total = sum(len(v) for v in vals)
        if m.get("expect_len") is not None and total != m["expect_len"]:
            return "expanded length %d, expected %d" % (total, m["expect_len"])
        if m.get("expect_value") is not None and (len(vals) != 1 or vals[0].decode() != m["expect_value"]):
            return "expanded value %r, expected %r" % (vals, m["expect_value"])
    if cls == "ok":
        amp = case.data.count(b"&")
        budget = 256 * len(case.data) * (amp + 1)
        nn = int(lines[0].split(" ")[2])
        total = sum(len(unhex(r[2])) for r in sec(lines, "X")) + sum(len(unhex(r[5])) for r in sec(lines, "A"))
        if nn > budget or total > budget:
            return "budget exceeded: %d nodes, %d bytes > %d" % (nn, total, budget)
    return None


# ---- C17 -------------------------------------------------------------------------------------
def o_identity(case, lines):
    if result_class(lines) != "ok":
        return None
    n = int(lines[0].split(" ")[2])
    og = sec(lines, "OG")
    if og:
        vals = [int(x) for x in og[0][1:]]
        exp = [1] * n + [-1, -1, -1, -1]
        if vals != exp:
            return "get_node/NodeId round trip: %s expected %s" % (vals, exp)
    oc = sec(lines, "OC")
    if oc:
        rows = oc[0][1:]
        k = len(rows)
        take = k // 2
        keys = [(1, i) for i in range(take)] + [(2, i) for i in range(take)]
        for a in range(k):
            cells = [rows[a][3 * b:3 * b + 3] for b in range(k)]
            for b2 in range(k):
                c, e, p = cells[b2]
                want = "e" if keys[a] == keys[b2] else ("l" if keys[a] < keys[b2] else "g")
                if c != want:
                    return "cmp(%s,%s) = %s, expected %s (document first, then id)" % (keys[a], keys[b2], c, want)
                if (e == "1") != (keys[a] == keys[b2]):
                    return "eq(%s,%s) = %s" % (keys[a], keys[b2], e)
                if p != ".":
                    return "partial_cmp disagrees with cmp at %s,%s" % (keys[a], keys[b2])
    os_ = sec(lines, "OS")
    if os_:
        seq = [tuple(int(x) for x in t.split(":")) for t in os_[0][1:]]
        exp = [(1, i) for i in range(n)] + [(2, i) for i in range(n)]
        if seq != exp:
            return "sorted nodes are not grouped by document in document order: %s" % (seq[:8],)
    oi = sec(lines, "OI")
    if oi:
        nodes_ = tree_from_N(lines)
        sub = sum(nd["ndesc"] for nd in nodes_[:40]) if nodes_ else 0
        exp = sum(max(0, n - k - 1) for k in range(3)) + 4 * n + sub + sum(1 for k in range(3) if n > k)
        # nth_back(k), rev().skip(k).take(2) and one more next_back() on the descendants of each of the first 40 nodes
        for nd in (nodes_[:40] if nodes_ else []):
            t = nd["ndesc"]
            exp += sum((1 if t > k else 0) + min(2, max(0, t - k)) + (1 if t > k + 1 else 0) for k in range(3))
        if int(oi[0][1]) != exp:
            return "only %s of %d nodes reached through descendants().nth(k) / nth_back(k) / rev().skip(k) are the expected nodes and round-trip through get_node(n.id())" % (oi[0][1], exp)
    oh = sec(lines, "OH")
    if oh:
        if int(oh[0][1]) != 2 * n or oh[0][2] != "1":
            return "hash set holds %s nodes (expected %d) / hash consistent: %s" % (oh[0][1], 2 * n, oh[0][2])
    return None


# ---- C11 -------------------------------------------------------------------------------------
def o_navigation(case, lines):
    if result_class(lines) == "panic":
        return "parsing or a navigation accessor panicked: " + " ".join(lines[:1])[:200]
    if result_class(lines) != "ok":
        return None
    bad = o_wf_tree(case, lines)
    if bad:
        return None          # C02 reports
    nodes = tree_from_N(lines)
    n = len(nodes)
    if n == 0:
        return None
    children = [[] for _ in range(n)]
    for nd in nodes[1:]:
        children[nd["parent"]].append(nd["id"])
    size = [nd["ndesc"] for nd in nodes]
    xs = {}
    for r in sec(lines, "X"):
        xs[int(r[1])] = r[2]
    cs = {}
    for r in sec(lines, "C"):
        cs[int(r[1])] = r[2]

    def anc(i):
        out = [i]
        while nodes[out[-1]]["parent"] >= 0:
            out.append(nodes[out[-1]]["parent"])
        return out

    def sibs(i):
        p = nodes[i]["parent"]
        return children[p] if p >= 0 else [i]

    def firsts(i):
        out = [i]
        while children[out[-1]]:
            out.append(children[out[-1]][0])
        return out

    def lasts(i):
        out = [i]
        while children[out[-1]]:
            out.append(children[out[-1]][-1])
        return out

    def first_elem(l):
        for x in l:
            if nodes[x]["kind"] == "E":
                return x
        return -1
    for r in sec(lines, "AX"):
        i = int(r[1])
        got = [int(x) for x in r[3:]]
        s = sibs(i)
        k = s.index(i)
        exp = {"anc": anc(i), "prevs": list(reversed(s[:k + 1])), "nexts": s[k:], "firsts": firsts(i), "lasts": lasts(i),
               "ch": children[i], "chrev": list(reversed(children[i])), "desc": list(range(i, i + size[i])),
               "descrev": list(reversed(range(i, i + size[i])))}[r[2]]
        if got != exp:
            return "node %d: %s = %s, tree says %s" % (i, r[2], got, exp)
    for r in sec(lines, "AE"):
        i = int(r[1])
        s = sibs(i)
        k = s.index(i)
        exp = [first_elem(anc(i)[1:]), first_elem(list(reversed(s[:k]))), first_elem(s[k + 1:]),
               first_elem(children[i]), first_elem(list(reversed(children[i])))]
        got = [int(x) for x in r[2:7]]
        if got != exp:
            return "node %d: element variants %s, tree says %s" % (i, got, exp)
    for r in sec(lines, "AH"):
        i = int(r[1])
        exp = [1 if children[i] else 0, 1 if len(sibs(i)) > 1 else 0]
        if [int(r[2]), int(r[3])] != exp:
            return "node %d: has_children/has_siblings %s, tree says %s" % (i, r[2:4], exp)
    if xs or not sec(lines, "X"):
        for r in sec(lines, "AT"):
            i = int(r[1])
            k = nodes[i]["kind"]
            if not (sec(lines, "X") or sec(lines, "C") or True):
                break
            if "c" not in case.flags:
                break
            if k == "E":
                et = xs.get(children[i][0], "-") if children[i] and nodes[children[i][0]]["kind"] == "T" else "-"
                s = sibs(i)
                kk = s.index(i)
                tl = xs.get(s[kk + 1], "-") if kk + 1 < len(s) and nodes[s[kk + 1]]["kind"] == "T" else "-"
            elif k == "T":
                et, tl = xs.get(i, "-"), "-"
            elif k == "C":
                et, tl = cs.get(i, "-"), "-"
            else:
                et, tl = "-", "-"
            if [r[2], r[3]] != [et, tl]:
                return "node %d: text/tail %s, tree says %s" % (i, r[2:4], [et, tl])
    ar = sec(lines, "AR")
    if ar and int(ar[0][1]) != first_elem(children[0]):
        return "root_element = %s" % ar[0][1]
    # deque contracts
    for r in sec(lines, "D"):
        i = int(r[1])
        kind = r[2]
        ln = int(r[3])
        if kind == "ch":
            items = children[i]
        elif kind == "de":
            items = list(range(i, i + size[i]))
        else:
            items = list(range(ln))
        if ln != len(items):
            return "node %d: %s iterator yields %d items, expected %d" % (i, kind, ln, len(items))
        for cell in r[4:]:
            w, res = cell.split("=")
            got = res.split(".")
            dq = list(items)
            exp = []
            toks = []
            j = 0
            while j < len(w):
                if w[j] in "NR":
                    k2 = j + 1
                    while k2 < len(w) and w[k2].isdigit():
                        k2 += 1
                    toks.append(w[j:k2])
                    j = k2
                else:
                    toks.append(w[j])
                    j += 1
            for t in toks:
                if t == "F":
                    exp.append(str(dq.pop(0)) if dq else "-1")
                elif t == "B":
                    exp.append(str(dq.pop()) if dq else "-1")
                elif t == "L":
                    exp.append("%d/%d" % (len(dq), len(dq)))
                elif t == "C":
                    exp.append(str(len(dq)))
                elif t == "T":
                    exp.append(str(dq[-1]) if dq else "-1")
                elif t[0] == "R":
                    k3 = int(t[1:])
                    if k3 < len(dq):
                        exp.append(str(dq[len(dq) - 1 - k3]))
                        dq = dq[:len(dq) - 1 - k3]
                    else:
                        exp.append("-1")
                        dq = []
                else:
                    k3 = int(t[1:])
                    if k3 < len(dq):
                        exp.append(str(dq[k3]))
                        dq = dq[k3 + 1:]
                    else:
                        exp.append("-1")
                        dq = []
            if got != exp:
                return "node %d: %s iterator, script %s gives %s, the deque contract gives %s" % (i, kind, w, got, exp)
    return None


# ---- C13 -------------------------------------------------------------------------------------
def is_boundary(data, p):
    return p == 0 or p == len(data) or (p < len(data) and (data[p] & 0xC0) != 0x80)


def o_ranges(case, lines):
    if result_class(lines) != "ok":
        return None
    data = case.data
    n = len(data)
    nodes = {int(r[1]): r for r in sec(lines, "N")}
    has_dtd = b"<!DOCTYPE" in data
    rng = {}
    for r in sec(lines, "P"):
        i, s, e = int(r[1]), int(r[2]), int(r[3])
        rng[i] = (s, e)
        if not (s <= e <= n) or not is_boundary(data, s) or not is_boundary(data, e):
            return "node %d: range %d..%d is not a valid slice of the input (len %d)" % (i, s, e, n)
        k = nodes[i][2] if i in nodes else None
        sl = data[s:e]
        if k == "R" and (s, e) != (0, n):
            return "root range %d..%d is not the whole input" % (s, e)
        if k == "E" and not (sl.startswith(b"<") and sl.endswith(b">")):
            return "element %d: slice %r does not run from '<' to '>'" % (i, sl[:30])
        if k == "C" and not (sl.startswith(b"<!--") and sl.endswith(b"-->")):
            return "comment %d: slice %r" % (i, sl[:30])
        if k == "P" and not (sl.startswith(b"<?") and sl.endswith(b"?>")):
            return "PI %d: slice %r" % (i, sl[:30])
    for r in sec(lines, "Q"):
        i = int(r[1])
        if i in rng:
            s, e = rng[i]
            local = unhex(r[3])
            sl = data[s:e]
            m = sl[1:].split(b":", 1)
            if not (sl[1:].startswith(local) or (len(m) == 2 and m[1].startswith(local))):
                return "element %d: slice %r does not begin with its qualified name" % (i, sl[:30])
    for r in sec(lines, "C"):
        i = int(r[1])
        if i in rng:
            s, e = rng[i]
            if data[s:e] != b"<!--" + unhex(r[2]) + b"-->":
                return "comment %d: slice is not '<!--' text '-->'" % i
    # a borrowed text value equals its slice, or the CDATA section around it
    for r in sec(lines, "B"):
        if len(r) >= 6 and r[2] == "text" and r[3] == "B" and r[1].isdigit():
            i = int(r[1])
            if i in rng and nodes.get(i, [None, None, None])[2] == "T":
                off, ln = int(r[4]), int(r[5])
                s2, e2 = rng[i]
                val = data[off:off + ln] if off >= 0 else None
                sl = data[s2:e2]
                if val is not None and not (sl == val or sl == b"<![CDATA[" + val + b"]]>"):
                    return "text node %d: borrowed value %r is neither its slice %r nor the CDATA section in it" % (i, val[:30], sl[:40])
    for r in sec(lines, "PA"):
        i, k = int(r[1]), int(r[2])
        s, e, qs, qe, vs, ve = [int(x) for x in r[3:9]]
        if not (s <= e <= n) or not is_boundary(data, s) or not is_boundary(data, e):
            return "attribute %d/%d: range %d..%d invalid" % (i, k, s, e)
        if i in rng and not (rng[i][0] <= s and e <= rng[i][1]):
            return "attribute %d/%d: range outside its element's range" % (i, k)
        if qe - qs < 65535 and (vs - qe) < 256:
            sl = data[s:e]
            if not (qs == s and s <= qe <= vs <= ve <= e):
                return "attribute %d/%d: sub-ranges out of order" % (i, k)
            if e - ve != 1 or data[ve:e] not in (b"'", b'"') or data[vs - 1:vs] != data[ve:e]:
                return "attribute %d/%d: range_value is not the text between the quotes" % (i, k)
            q = data[qs:qe]
            if b"=" in q or b" " in q or not q:
                return "attribute %d/%d: range_qname %r is not a qualified name" % (i, k, q)
            if not data[qe:vs - 1].strip(b" \t\r\n") == b"=":
                return "attribute %d/%d: '=' not between name and value" % (i, k)
    if not has_dtd and rng:
        # nesting: child within parent, siblings disjoint and ascending
        last_end = {}
        for i in sorted(rng):
            if i == 0 or i not in nodes:
                continue
            p = int(nodes[i][3])
            s, e = rng[i]
            if p in rng and not (rng[p][0] <= s and e <= rng[p][1]):
                return "node %d: range %d..%d not inside its parent's %d..%d" % (i, s, e, rng[p][0], rng[p][1])
            if p in last_end and s < last_end[p]:
                return "node %d: range overlaps its previous sibling" % i
            last_end[p] = e
    return None


# ---- C14 -------------------------------------------------------------------------------------
def ref_text_pos(data, p):
    p = min(p, len(data))
    while not is_boundary(data, p):
        p -= 1
    pre = data[:p]
    row = 1 + pre.count(b"\n")
    line = pre[pre.rfind(b"\n") + 1:]
    col = 1 + len(line.decode("utf-8"))
    return row, col


def o_positions(case, lines):
    data = case.data
    cls = result_class(lines)
    for r in sec(lines, "TP"):
        for p, cell in enumerate(r[1:]):
            row, col = [int(x) for x in cell.split(":")]
            if (row, col) != ref_text_pos(data, p):
                return "text_pos_at(%d) = %d:%d, reference %d:%d" % (p, row, col, *ref_text_pos(data, p))
    if cls == "err":
        e = [l for l in lines if l.startswith("E ")]
        if e:
            f = e[0].split(" ")
            row, col = int(f[2]), int(f[3])
            # Error::pos() reports the position the variant carries, and the Display text ends with it
            for tag, what in (("EV", "the position carried by the variant"), ("ED", "the position in the Display text")):
                ev = [l for l in lines if l.startswith(tag + " ")]
                if ev:
                    g = ev[0].split(" ")
                    if g[1] != "-" and (int(g[1]), int(g[2])) != (row, col):
                        return "Error::pos() = %d:%d, but %s is %s:%s (%s)" % (row, col, what, g[1], g[2], f[1])
                    if g[1] == "-" and tag == "EV" and (row, col) != (1, 1):
                        return "Error::pos() = %d:%d for the position-less variant %s (documented: 1:1)" % (row, col, f[1])
            if (case.meta or {}).get("expect_err_at") is not None and f[1] == "UnknownToken":
                er, ec = ref_text_pos(data, case.meta["expect_err_at"])
                if (row, col) != (er, ec):
                    return "%s reported at %d:%d, the offending construct is at %d:%d" % (f[1], row, col, er, ec)
            ls = data.split(b"\n")
            if not (1 <= row <= len(ls)):
                return "error row %d outside 1..%d" % (row, len(ls))
            nchars = len(ls[row - 1].decode("utf-8", "replace"))
            if not (1 <= col <= nchars + 1):
                return "error column %d outside 1..%d" % (col, nchars + 1)
            # the character / byte carried in the error is the one written at the reported position
            line = ls[row - 1].decode("utf-8", "replace") + ("\n" if row < len(ls) else "")
            at = line[col - 1] if col - 1 < len(line) else None
            if f[1] == "NonXmlChar" and at is not None and ord(at) != int(f[4]):
                return "NonXmlChar(U+%04X) reported at %d:%d, where the input has U+%04X" % (int(f[4]), row, col, ord(at))
            if f[1] == "InvalidChar" and at is not None and ord(at) < 128 and ord(at) != int(f[5]):
                return "InvalidChar(actual %d) reported at %d:%d, where the input has %d" % (int(f[5]), row, col, ord(at))
            if f[1] == "InvalidChar2" and at is not None and ord(at) < 128 and ord(at) != int(f[5]):
                return "InvalidChar2(actual %d) reported at %d:%d, where the input has %d" % (int(f[5]), row, col, ord(at))
            # the construct named by the variant stands at the reported place: a loop is reported right behind the
            # offending reference '&name;', an unknown reference / a '<' reaching an attribute at the '&' resp. the '<'
            before = line[:col - 1]
            if f[1] == "EntityReferenceLoop" and not before.endswith(";"):
                return "EntityReferenceLoop reported at %d:%d, which is not right behind a reference" % (row, col)
            if f[1] == "EntityReferenceLoop" and "&" not in before:
                return "EntityReferenceLoop reported at %d:%d, no reference stands before that place on its line" % (row, col)
            if f[1] == "UnknownEntityReference" and at != "&":
                return "UnknownEntityReference reported at %d:%d, where the input has %r, not the '&' of a reference" % (row, col, at)
            if f[1] == "InvalidAttributeValue" and at not in ("<", "&"):
                return "InvalidAttributeValue reported at %d:%d, where the input has %r, neither '<' nor a reference to it" % (row, col, at)
    return None


def nodes_kind(lines, i):
    for r in sec(lines, "N"):
        if int(r[1]) == i:
            return r[2]
    return None


# ---- C18 -------------------------------------------------------------------------------------
def o_borrowed(case, lines):
    if result_class(lines) != "ok":
        return None
    data = case.data
    n = len(data)
    q = {int(r[1]): r for r in sec(lines, "Q")}
    for r in sec(lines, "B"):
        if r[1] == "input":
            if r[2] != "0" or int(r[3]) != n:
                return "input_text() is not the string passed to parse"
            continue
        i = int(r[1])
        what = r[2]

        def inside(off, ln, name):
            if ln == 0:
                return None
            if off < 0 or off + ln > n:
                return "node %d: %s is not a sub-slice of the input" % (i, name)
            return None
        if what == "local":
            bad = inside(int(r[3]), int(r[4]), "local name")
            if bad:
                return bad
            if i in q and data[int(r[3]):int(r[3]) + int(r[4])] != unhex(q[i][3]):
                return "node %d: local name bytes differ from the input at its address" % i
        elif what == "attr":
            bad = inside(int(r[4]), int(r[5]), "attribute name")
            if bad:
                return bad
            if r[6] == "B":
                bad = inside(int(r[7]), int(r[8]), "borrowed attribute value")
                if bad:
                    return bad
        elif what == "ns":
            if int(r[4]) != -2:
                bad = inside(int(r[4]), int(r[5]), "namespace prefix")
                if bad:
                    return bad
        elif what == "pi":
            bad = inside(int(r[3]), int(r[4]), "PI target") or (inside(int(r[5]), int(r[6]), "PI value") if int(r[5]) != -2 else None)
            if bad:
                return bad
        elif what == "text":
            if r[3] == "B":
                bad = inside(int(r[4]), int(r[5]), "borrowed text")
                if bad:
                    return bad
    # fast paths: an attribute value without & TAB LF CR is borrowed; text without & and CR is borrowed
    a = {(int(r[1]), int(r[2])): r for r in sec(lines, "A")}
    for r in sec(lines, "B"):
        if r[2] == "attr":
            key = (int(r[1]), int(r[3]))
            if key in a and r[6] == "B":
                v = unhex(a[key][5])
                if data[int(r[7]):int(r[7]) + int(r[8])] != v:
                    return "attribute %s: borrowed value differs from the input at its address" % (key,)
    m = case.meta or {}
    # the fast-path rule on the piece generators: a run written as one literal stretch without
    # '&' and CR (no CDATA, no reference) is stored borrowed, whatever else the document contains
    src = m.get("src")
    if src is not None and m.get("gen") == "pieces-text" and src != "" and not any(x in src for x in ("&", "\r", "<![CDATA[")):
        kinds = [r[3] for r in sec(lines, "B") if r[2] == "text" and r[1].isdigit() and nodes_kind(lines, int(r[1])) == "T"]
        if kinds and kinds[0] != "B":
            return "a text run without '&' and CR (%r) is stored owned, the fast-path rule says borrowed" % src
    if src is not None and m.get("gen") == "pieces-attr" and not any(x in src for x in ("&", "\r", "\n", "\t")):
        kinds = [r[6] for r in sec(lines, "B") if r[2] == "attr"]
        if kinds and kinds[0] != "B":
            return "an attribute value without '&', TAB, LF, CR (%r) is stored owned, the fast-path rule says borrowed" % src
    if m.get("expect_borrowed_text") is not None:
        kinds = [r[3] for r in sec(lines, "B") if r[2] == "text" and r[1] == str(m.get("text_node", 2))]
        if kinds and (kinds[0] == "B") != m["expect_borrowed_text"]:
            return "text storage is %s, the fast-path rule says %s" % (kinds[0], "B" if m["expect_borrowed_text"] else "O")
    if m.get("expect_borrowed_attr") is not None:
        kinds = [r[6] for r in sec(lines, "B") if r[2] == "attr"]
        if kinds and (kinds[0] == "B") != m["expect_borrowed_attr"]:
            return "attribute storage is %s, the fast-path rule says %s" % (kinds[0], "B" if m["expect_borrowed_attr"] else "O")
    if m.get("expect_borrowed_texts") is not None or m.get("expect_borrowed_attrs") is not None:
        if result_class(lines) != "ok":
            return "well-formed document rejected: " + " ".join(lines[1:2])
        tk = [r[3] for r in sec(lines, "B") if r[2] == "text"]
        ak = [r[6] for r in sec(lines, "B") if r[2] == "attr"]
        for what, got, want in (("text", tk, m.get("expect_borrowed_texts") or []), ("attribute value", ak, m.get("expect_borrowed_attrs") or [])):
            if want and len(got) != len(want):
                return "%d %s strings, expected %d" % (len(got), what, len(want))
            for k, w in enumerate(want):
                if (got[k] == "B") != w:
                    return "%s number %d is stored %s, the rule says %s (what an EARLIER string needed must not matter)" % (what, k, got[k], "B" if w else "O")
    if m.get("expect_all_borrowed"):
        # nothing in this document needs normalising: every attribute value and every text is a slice of the input
        for r in sec(lines, "B"):
            if r[2] == "attr" and r[6] != "B":
                return "an attribute value with nothing to normalise is stored owned (%s)" % " ".join(r[:7])
            if r[2] == "text" and r[3] != "B":
                return "a text / comment / PI string with nothing to normalise is stored owned (%s)" % " ".join(r[:5])
    return None


# ---- C12 -------------------------------------------------------------------------------------
def o_lookups(case, lines):
    """name-based lookups against the enumerated attributes / namespaces of the same dump"""
    if result_class(lines) != "ok":
        return None
    lb0 = sec(lines, "LB")
    if lb0 and lb0[0][1] != "0":
        return "%s answers of namespace / name lookups depend on hidden state (earlier queries or the address of the argument)" % lb0[0][1]
    if "c" not in case.flags:
        return None
    attrs = {}
    for r in sec(lines, "A"):
        attrs.setdefault(int(r[1]), []).append((r[3], r[4], r[5]))
    nss = {}
    for r in sec(lines, "S"):
        nss.setdefault(int(r[1]), []).append((r[3], r[4]))
    tags = {int(r[1]): (r[2], r[3]) for r in sec(lines, "Q")}
    kinds = {int(r[1]): r[2] for r in sec(lines, "N")}
    ids = sorted(kinds) if kinds else sorted(set(tags) | set(attrs))
    # rebuild the query lists exactly as the harness does
    names = []

    def push(ns, l):
        for cand in ((ns, l), ("-", l), ("x" + b"other".hex(), l), ("x", l)):
            if cand not in names:
                names.append(cand)
    order = sorted(tags)
    for i in order:
        push(*tags[i])
        for (ans, al, _) in attrs.get(i, []):
            push(ans, al)
    push("-", "x" + b"absent".hex())
    push("x" + spec.XML_URI.encode().hex(), "x" + b"lang".hex())
    push("-", "x")
    prefixes = ["-", "x" + b"absent".hex(), "x" + b"xml".hex()]
    uris = ["x" + b"absent".hex(), "x", "x" + spec.XML_URI.encode().hex(), "x" + spec.XMLNS_URI.encode().hex()]
    for i in (sorted(kinds) if kinds else order):
        for (p, u) in nss.get(i, []):
            if p not in prefixes:
                prefixes.append(p)
            if u not in uris:
                uris.append(u)
    for r in sec(lines, "L"):
        i = int(r[1])
        tn = r[2][3:].split(",")
        exp_tn = list(tags.get(i, ("-", "x")))
        if tn != exp_tn:
            return "node %d: tag_name %s, expected %s" % (i, tn, exp_tn)
        cells = r[3:3 + len(names)]
        if len(cells) != len(names):
            return None      # query list not reproducible (no N section): skip
        al = attrs.get(i, [])
        for (qns, ql), cell in zip(names, cells):
            head, val = cell.split(":")
            h, ha, an = head[0], head[1], int(head[2:])
            if i in tags:
                exp_h = (tags[i][1] == ql) if qns == "-" else (tags[i] == (qns, ql))
            else:
                exp_h = False
            idx = -1
            for k, (ans, aloc, av) in enumerate(al):
                if (ans, aloc) == (qns, ql):
                    idx = k
                    break
            exp_val = al[idx][2] if idx >= 0 else "-"
            if (h == "1") != exp_h:
                return "node %d: has_tag_name(%s,%s) = %s" % (i, qns, ql, h)
            if an != idx or (ha == "1") != (idx >= 0) or val != exp_val:
                return "node %d: attribute lookup (%s,%s) gives index %d value %s, enumeration gives %d %s" % (i, qns, ql, an, val, idx, exp_val)
        rest = r[3 + len(names):]
        nl = nss.get(i, [])
        dn = rest[0][3:]
        exp_dn = next((u for p, u in nl if p == "-"), "-")
        if dn != exp_dn:
            return "node %d: default_namespace %s, first unprefixed binding %s" % (i, dn, exp_dn)
        got_p = rest[1:1 + len(prefixes)]
        for p, g in zip(prefixes, got_p):
            e = next((u for pp, u in nl if pp == p), "-")
            if g != e:
                return "node %d: lookup_namespace_uri(%s) = %s, first binding %s" % (i, p, g, e)
        got_u = rest[1 + len(prefixes):1 + len(prefixes) + len(uris)]
        for u, g in zip(uris, got_u):
            if u == "x" + spec.XML_URI.encode().hex():
                e = "x" + b"xml".hex()
            else:
                e = next((pp for pp, uu in nl if uu == u), "-")
            if g != e:
                return "node %d: lookup_prefix(%s) = %s, first binding %s" % (i, u, g, e)
    lb = sec(lines, "LB")
    if lb and lb[0][1] != "0":
        return "%s answers of namespace / name lookups depend on hidden state (earlier queries or the address of the argument)" % lb[0][1]
    lq = sec(lines, "LQ")
    if lq:
        all_attrs = []
        for i in sorted(attrs):
            for a in attrs[i]:
                if len(all_attrs) < 12:
                    all_attrs.append(a)
        rows = lq[0][1:]
        for x, row in enumerate(rows):
            for y, c in enumerate(row):
                if (c == "1") != (all_attrs[x] == all_attrs[y]):
                    return "Attribute == : %s vs %s gives %s" % (all_attrs[x], all_attrs[y], c)
    return None
