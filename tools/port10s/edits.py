# per-file edits (applied AFTER the renames): none was needed for stage 10.  The three global substitutions of port.py
# (E.charref_ok_in_value -> charref_ok10, charref_val_ok -> charref_val_ok10, the five-number test -> the three-number
# test in the cut lemmas of Flat) are the whole difference; register a function here with  @edit('Name')  if a later
# change of the stage-9 files needs one.
