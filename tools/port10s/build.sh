#!/bin/bash
# compile the stage-10 soundness chain in order, stop at the first failure:  build.sh [first-file]
cd /verif/coq; mkdir -p /tmp/s10s
ORDER="10 10Aux 10PEnt 10PRef 10PRText 10PRTok 10PRMain 10uEmb 10aSem 10bLv 10GVal 10Flat 10Lex 10Dtd 10Text 10Doc 10Val 10RText 10RTok 10RTag 10Nest 10BText 10BMain 10Cls 10RDoc 10Final"
start=${1:-10}; go=0
for f in $ORDER; do
  [ "$f" = "$start" ] && go=1
  [ $go = 1 ] || continue
  s=$(date +%s)
  if ! timeout 1800 coqc -Q . RX Proofs/CstSound$f.v > /tmp/s10s/$f.log 2>&1; then echo "FAIL CstSound$f ($(( $(date +%s)-s )) s)"; grep -v conda /tmp/s10s/$f.log | tail -40; exit 1; fi
  echo "ok CstSound$f ($(( $(date +%s)-s )) s)"
done
