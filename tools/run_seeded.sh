#!/bin/bash
# run the quick checks of the given properties against a seeded mutant directory (patch.diff)
#   tools/run_seeded.sh <dir with patch.diff> <pid> [<pid>...]
d=$1; shift
exec "$(dirname "$0")/mutant_test.sh" "$d/patch.diff" quick "$@"
