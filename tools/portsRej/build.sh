#!/bin/sh
# tools/portsRej/build.sh -- regenerate and compile the CstFullRejS7* / CstFullRejS10* / CstFullRejS11* files (the rejection halves
# C09 / C06 / C08 on stages S7, S10, S11 of the capstone), in order.
set -e
mkdir -p /tmp/sRej
H=$(dirname "$0")
python3 $H/gen7.py; python3 $H/genN.py 10; python3 $H/gen11.py
cd /verif/coq
for f in S7Sem S7Text S7Items S7Doc S7Main S7NsText S7NsItems S7NsDoc S7NsMain \
         S10Sem S10Attr S10Text S10Items S10Doc S10Main S10NsText S10NsItems S10NsDoc S10NsMain \
         S11Sem S11Text S11Items S11Doc S11Main S11NsText S11NsItems S11NsDoc S11NsMain S11Example; do
  s=$(date +%s.%N)
  timeout 900 coqc -Q . RX Proofs/CstFullRej$f.v > /tmp/sRej/$f.log 2>&1 || { echo "FAILED $f"; tail -20 /tmp/sRej/$f.log; exit 1; }
  e=$(date +%s.%N)
  printf "Proofs/CstFullRej%s.v  %.1fs  closed=%s other=%s\n" $f $(echo "$e - $s" | bc) $(grep -c "Closed under the global context" /tmp/sRej/$f.log) $(grep -c -i "axiom\|Admitted" /tmp/sRej/$f.log)
done
