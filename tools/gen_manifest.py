#!/usr/bin/env python3
"""Writes MANIFEST.json from the property table in props.py and the level texts below."""
import json, os, sys
sys.path.insert(0, os.path.dirname(os.path.abspath(__file__)))
import props

TEXT = {
 "C01": 'partial proof: (termination) OutOfFuel is proved unreachable for the whole tokenizer run with the real callback on valid UTF-8 input: every loop consumes input and the detector bounds entity nesting; (no panic) the tokenizer is proved to reach none of its panic sites on valid UTF-8 with any non-panicking callback, and the real callback is proved to preserve the builder invariant and to be able to reach only one site, the debug_assert / truncation of ShortRange::from in resolve_namespaces (tree_order longer than u32::MAX; DESIGN.md D17); the final root-children check of parse() is covered by C02/C11 theorems. Stack bytes per frame and allocator behaviour are runtime facts: isolated scale runs (depth up to 10^6 on a 1 MiB stack, debug and release).',
 "C02": "proof: parse text opt = Ok d implies the arena of d is the pre-order encoding (Spec/Tree.v) of a tree satisfying wf_doc_tree: Root at id 0 and nowhere else, children only under Root/Element, exactly one element child of the root, no text under the root, no two adjacent text siblings (theorem parse_wf_doc_tree, for every input and all options). Tied to /repo by the correspondence of every link on exhaustive token strings x entity tables, random documents and long-run families, plus a direct well-formedness oracle on the implementation's dump.",
 "C03": "partial: three-way correspondence (implementation / Coq model / reference semantics of the generator) over random abstract documents x renderings; lexer theorems are partial.",
 "C04": "partial proof: the text machine (TextBuffer with pending CR, as driven by process_text) is proved equal to the XML decoding of Spec/Text.v for every chunk sequence, also on the model's own loop (process_text_with) for runs without general entity references; CDATA normalisation proved; the composition through entity references is not proved (covered by exhaustive piece sequences in the correspondence).",
 "C05": "partial proof: attribute-value normalisation proved against Spec/Text.v (3.3.3) for every chunk sequence at top level and inside entity values, also on the model's normalize_attribute for values without general entity references; list/order theorems at builder level as they land; composition through nested entities not proved (exhaustive piece sequences in the correspondence).",
 "C06": "partial proof: over a whole parse (parse_scopes_ok, parse_names_ok): every element's namespace range denotes a prefix-unique scope that is scope_of own (parent's scope), and tag / attribute namespace indices denote resolve_elem / resolve_attr of some prefix in that scope; function level: the scope is own declarations then inherited non-redeclared bindings, first-binding resolution, duplicate declarations detected, the 2^16 limit. Not proved: that `own` is exactly the element's written declarations and the prefix exactly the written prefix (they are existentially quantified in the whole-parse theorems; the function-level theorems and process_attribute_classifies cover the individual steps). Exhaustive small scoping documents and the 2^16 scale family in the correspondence.",
 "C07": "partial: metamorphic correspondence (inline vs hoisted renderings) on implementation and model; attribute half and first-declaration-wins as lemmas when they land; D15 is a recorded known finding.",
 "C08": "partial proof: the three character classes are proved equal to the Fifth Edition productions for every scalar value, against tables regenerated from the source on every run; local rejection theorems as they land; whole-parser soundness is not proved; catalogue / truncation / token-string / code-point correspondence with a rejection oracle.",
 "C09": "partial proof: the loop detector is proved sound and complete w.r.t. the trace specification, with the documented numbers (10, 255) against constants regenerated from the source; the expansion budget over a whole parse is checked by the oracle, not proved.",
 "C10": "partial: the model makes every panic site of the read API explicit; navigation is proved panic-free on encoded trees (C11 theorems return Ok), text_pos_at is proved total on valid UTF-8; the remaining operations are covered by correspondence with all batteries and isolated scale runs (Debug at depth 10^4).",
 "C11": "proof: for every arena that is the pre-order encoding of a tree (Arena d t) every link accessor, axis, element variant, text/tail, root_element and iterator of the model's API is proved to be the corresponding function of t; Children and the slice iterators (descendants, attributes, namespaces) are proved to implement the deque specification for every operation sequence. That parse results are such arenas is C02's theorem. Tied to /repo by the navigation/deque correspondence battery.",
 "C12": "proof: each lookup of the model's API is proved to be the first match of the enumerated attributes / namespaces (has_tag_name, attribute, attribute_node, has_attribute, default_namespace, lookup_namespace_uri, lookup_prefix incl. the xml case, Attribute equality, tag_name of non-elements). Tied to /repo by the lookup battery.",
 "C13": "partial: the model carries all ranges; correspondence of every node and attribute range; a range oracle (validity, shapes, nesting on DOCTYPE-free documents, borrowed text = slice, shift relation) on the implementation's dump; range theorems not yet proved.",
 "C14": "partial proof: text_pos_at proved total on valid UTF-8, clamping, equal to the counting specification, within bounds, and moving with inserted line breaks / spaces; error-position theorems as they land; correspondence of every error (variant, payload, row, column) and of text_pos_at for all offsets.",
 "C15": 'proof: limit_caps, limit_above, limit_below, limit_error_persists proved for every input, both values of allow_dtd and every pair of limits (a lockstep simulation of the two runs through the whole tokenizer and builder). Tied to /repo by the relation oracle over limits taken relative to the real node count.',
 "C16": 'proof: default options read from the source; dtd_flag_relation (Err DtdDetected or identical result) and no_doctype_no_difference proved for every input and limit. The length clause (content <= input under default options) is checked by the relation oracle, not proved. Tied to /repo by runs under both option values and Document::parse.',
 "C17": "proof: node keys (document, id): equality iff same key, cmp a total order consistent with equality, document order inside one document, documents kept together (also for sorted lists), get_node Some exactly below the node count. Hash is a function of the same key (not modelled; exercised through HashSet in the correspondence). Tied to /repo by the identity battery over two live documents.",
 "C18": "partial proof: every borrowed string of a parsed document is proved to be a valid slice of the input (bounds and char boundaries), the only 'static strings are those of the xml namespace, the fast paths are proved to keep text / CDATA / attribute values borrowed; that the bytes of a name equal the written name is covered by the lexer theorems as far as they go; correspondence of storage kind and address offsets of every string.",
 "C19": "partial (translation validation): dumps under four feature sets and repeated/interleaved parses must be identical; the model is a function by construction.",
 "C20": "partial: Send/Sync and the unsafe ban are judgements of rustc (checked while building the harness and with -F unsafe_code), not theorems; reader threads over one Document must reproduce the single-thread dump; the model's read operations are pure functions of the document.",
}
NOTE = "trusted: Coq 8.16.1 kernel; no axioms (Print Assumptions must say 'Closed under the global context' for every pinned theorem, checked on every run together with a scan for Admitted/Axiom/Parameter); hand-written model coq/Model/*.v, tied to /repo by the correspondence run (finite); translator tools/gen_tables.py; extraction with ExtrOcamlBasic only; OCaml driver and Rust harness printers; Python generators and oracles (case generation and search only)."

checks = []
for pid in sorted(props.PROPS):
    P = props.PROPS[pid]
    checks.append({
        "property_id": pid,
        "quick_cmd": "./check run %s --tier quick" % pid,
        "thorough_cmd": "./check run %s --tier thorough" % pid,
        "evidence_file": "/verif/evidence/%s.json" % pid,
        "replay_cmd_template": "./check replay {path}",
        "engine": "rocq-model+correspondence",
        "level_claimed": {"category": P.level, "text": TEXT[pid], "design_ref": "DESIGN.md section 5 (%s) and section 11 (status)" % pid},
        "level_note": NOTE,
        "technique": P.technique,
    })
m = {"version": 1,
     "setup_cmd": "./check setup",
     "hooks": {"guard": "roxmltree_verif", "enable": "RUSTFLAGS=\"--cfg roxmltree_verif\" is set by the harness build; no source hook is needed at present (the public API is enough), so no hook commit exists",
               "baseline_off_cmd": "cd /repo && cargo test --workspace --no-fail-fast --offline", "source_commits": [], "add_only": True},
     "engines": [{"name": "rocq-model+correspondence", "path": "/verif/coq, /verif/ocaml, /verif/harness, /verif/tools", "serves_properties": sorted(props.PROPS),
                  "kind_free_text": "Coq 8.16 model + theorems; extraction to OCaml; Rust harness built from /repo; differential comparison by projection; Python generators and oracles"}],
     "checks": checks,
     "notes": "Genuine defects found were repaired by 'fix:' commits in /repo; see known_findings.json and DESIGN.md section 6.",
     "not_applicable": []}
json.dump(m, open(os.path.join(props.VERIF, "MANIFEST.json"), "w"), indent=1)
print("MANIFEST.json written:", len(checks), "checks")
