(* ------------------------------------------------------------------------------------------ *)
(* S10 inside S11                                                                             *)
(* ------------------------------------------------------------------------------------------ *)
(* the new condition on a character reference is the old one plus the references to TAB and LF *)
Lemma charref_ok11_spec p :
  charref_ok11 p = charref_ok10 p ||
                   match p with T.PCharRef hex ds => (T.ref_val hex ds =? 9) || (T.ref_val hex ds =? 10) | _ => false end.
Proof.
  destruct p as [cs|hex ds|e|cs]; try reflexivity.
  cbn [charref_ok10 charref_ok11]. cbv zeta. lia.
Qed.

Lemma uepiece_11 q cd ch iv p : wf_uepiece10 q cd ch iv p = true -> wf_uepiece11 q cd ch iv p = true.
Proof.
  destruct p as [[cs|hex ds|e|cs]|n]; cbn [wf_uepiece10 wf_uepiece11]; try (intros H; exact H).
  all: rewrite !andb_true_iff; intros [H1 H2]; split; [exact H1|]; destruct iv; [apply CstFullS11Base.charref_10_11; exact H2|reflexivity].
Qed.

(* stage S10 has no reference to LF in an entity literal: (P2) holds *)
Lemma no_lf_ref_10 q cd ch p : wf_uepiece10 q cd ch true p = true -> is_lf_ref p = false.
Proof.
  destruct p as [[cs|hex ds|e|cs]|n]; try (intros _; reflexivity).
  cbn [wf_uepiece10 is_lf_ref charref_ok10]. cbv zeta. rewrite !andb_true_iff. intros [_ H]. lia.
Qed.

Lemma uepieces_11 q cd ch iv ps : wf_uepieces10 q cd ch iv ps = true -> wf_uepieces11 q cd ch iv ps = true.
Proof.
  unfold wf_uepieces10, wf_uepieces11. rewrite !andb_true_iff. intros [H1 H2]. split; [split; [|exact H2]|].
  - revert H1. apply CstLex.forallb_imp. intros p. apply uepiece_11.
  - destruct iv; [|reflexivity]. apply CstFullS11Base.lf_ok_none.
    destruct (existsb is_lf_ref ps) eqn:Ex; [|reflexivity]. apply existsb_exists in Ex. destruct Ex as (p & Hin & Hp).
    rewrite forallb_forall in H1. rewrite (no_lf_ref_10 _ _ _ _ (H1 p Hin)) in Hp. discriminate.
Qed.

Lemma uitem_11 m : forall i, wf_uitem10 m i = true -> wf_uitem11 m i = true.
Proof.
  intros i. induction i as [n a w|n a w cs w2 IH|r|bs|t s v] using fitem_ind; intros H.
  - exact H.
  - rewrite CstFullS10Text.wf_uitem_elem in H. rewrite wf_uitem_elem. rewrite !andb_true_iff in H |- *. destruct H as [[[Hn Ha] Hw] [[Hw2 Hna] Hcs]].
    repeat split; try assumption.
    clear - IH Hcs. induction IH as [|c r Hc _ IHr]; [reflexivity|]. cbn [CstFullS10Text.wf_uitems wf_uitems] in *.
    apply andb_true_iff in Hcs. destruct Hcs as [H1 H2]. rewrite (Hc H1), (IHr H2). reflexivity.
  - cbn [wf_uitem10 wf_uitem11] in *. rewrite !andb_true_iff in H |- *. destruct H as [H1 H2]. split; [exact H1|apply uepieces_11; exact H2].
  - exact H.
  - exact H.
Qed.

Lemma xdecl_11 e : wf_xdecl10 e = true -> wf_xdecl11 e = true.
Proof.
  unfold wf_xdecl10, wf_xdecl11, wf_xvalue10, wf_xvalue11. rewrite !andb_true_iff. intros [[[[[[H0 H1] Hn] H2] Hq] [Hv1 Hv2]] H3].
  repeat split; try assumption.
  destruct (x_value e) as [ps|its]; [exact Hv2|]. apply andb_true_iff in Hv2. destruct Hv2 as [A B0]. rewrite B0, andb_true_r.
  revert A. apply CstLex.forallb_imp. intros i. apply uitem_11.
Qed.

Lemma sdecl_11 s : wf_sdecl10 s = true -> wf_sdecl11 s = true.
Proof. destruct s as [e|s]; cbn [wf_sdecl10 wf_sdecl11]; [apply xdecl_11|intros H; exact H]. Qed.

Lemma doctype_11 t : wf_doctype10 t = true -> wf_doctype11 t = true.
Proof.
  unfold wf_doctype10, wf_doctype11. rewrite !andb_true_iff. intros [[[[H1 H2] H3] H4] H5].
  repeat split; try assumption.
  destruct (z_subset t) as [u|]; [|reflexivity]. cbn [wf_opt] in *. unfold wf_subset10, wf_subset11 in *. rewrite !andb_true_iff in *.
  destruct H5 as [[A B0] C0]. repeat split; try assumption. revert A. apply CstLex.forallb_imp. exact sdecl_11.
Qed.

(* the documents of stage S10 are documents of stage S11: the same document, so the same rendering and the same meaning *)
Theorem s10_in_s11 : forall d : S10.doc, S10.wf_doc d = true ->
  S11.wf_doc d = true /\ S11.render d = S10.render d /\ S11.sem d = S10.sem d /\ S11.has_dtd d = S10.has_dtd d.
Proof.
  intros d Hwf. split; [|repeat split; reflexivity].
  unfold S10.wf_doc in Hwf. unfold S11.wf_doc. rewrite !andb_true_iff in Hwf |- *.
  destruct Hwf as [[[[[[[H1 H2] H3] H4] H5] H6] H7] H8]. repeat split; try assumption.
  - destruct (S6.x_dtd d) as [g|]; [|reflexivity]. cbn [wf_opt] in *. unfold S10.wf_dtd_part, S11.wf_dtd_part in *.
    rewrite !andb_true_iff in *. destruct H2 as [[A B0] C0]. repeat split; [exact A|exact B0|apply doctype_11; exact C0].
  - destruct (d_root (S6.x_main d)); try discriminate. apply uitem_11. exact H6.
Qed.
Print Assumptions s10_in_s11.

(* ------------------------------------------------------------------------------------------ *)
(* (P1) as a reading: character data that satisfies the conditions of a run can be read as content *)
(* ------------------------------------------------------------------------------------------ *)
Lemma uepiece_as_run q p : wf_uepiece11 q false true true p = true -> wf_uepiece11 60 true true true p = true.
Proof.
  destruct p as [[cs|hex ds|e|cs]|n]; cbn [wf_uepiece11 andb]; try (intros H; exact H); try discriminate.
  rewrite !andb_true_iff. intros [[H1 _] H3]. repeat split; try assumption.
  cbn [wf_utpiece] in H1. apply andb_true_iff in H1. apply H1.
Qed.

(* the literal of an entity whose character data has references to TAB / LF (and satisfies the conditions of a run,
   (P2) included) is the rendering of a well-formed content value: what is asked of the document is that the
   references to the entity can be inlined in that reading, that is, that they all stand in element content *)
Theorem content_reading : forall q ps, ps <> [] ->
  forallb (fun x => negb (x =? q)) (X4.r_xvalue (X4.XText ps)) = true ->
  wf_uepieces11 q false true true ps = true ->
  wf_xvalue11 q (X4.XContent [@IText epieces ps]) = true /\
  X4.r_xvalue (X4.XContent [@IText epieces ps]) = X4.r_xvalue (X4.XText ps).
Proof.
  intros q ps Hne Hq Hw.
  assert (Er : X4.r_xvalue (X4.XContent [@IText epieces ps]) = X4.r_xvalue (X4.XText ps))
    by (cbn [X4.r_xvalue X4.r_uitems flat_map r_item]; apply app_nil_r).
  split; [|exact Er]. unfold wf_xvalue11. rewrite Er, Hq. cbn [andb forallb no_adjacent_text wf_uitem11].
  rewrite !andb_true_r. destruct ps as [|p0 r0]; [congruence|]. cbn [andb].
  unfold wf_uepieces11 in *. rewrite !andb_true_iff in *. destruct Hw as [[A B0] C0]. repeat split; try assumption.
  revert A. apply CstLex.forallb_imp. intros p. apply uepiece_as_run.
Qed.
Print Assumptions content_reading.
