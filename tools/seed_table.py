#!/usr/bin/env python3
"""Rewrites the seeded-change table of DESIGN.md (section 11.6) from seeded/*/meta.json."""
import json, os, re
root = os.path.join(os.path.dirname(os.path.abspath(__file__)), "..")
rows = []
def key(n):
    m = re.match(r"C(\d+)-m(\d+)", n)
    return (int(m.group(1)), int(m.group(2)))
names = sorted((d for d in os.listdir(os.path.join(root, "seeded")) if re.match(r"C\d+-m\d+$", d)), key=key)
for n in names:
    m = json.load(open(os.path.join(root, "seeded", n, "meta.json")))
    by = list(m.get("detected_by_checks", [])) + [x for x in m.get("also_detected_by", []) if x not in m.get("detected_by_checks", [])]
    rows.append("| %s | %s | %s | %s |" % (n, m["needs_to_manifest"].replace("|", "/"), ", ".join(by), m.get("detection_history", "").replace("|", "/")))
p = os.path.join(root, "DESIGN.md")
s = open(p, encoding="utf-8").read()
head = "| seeded change | needs | caught by | history |\n|---|---|---|---|\n"
i = s.index(head) + len(head)
j = i
while j < len(s) and s[j] == "|":
    j = (s.index("\n", j) + 1) if "\n" in s[j:] else len(s)
s = s[:i] + "\n".join(rows) + "\n" + s[j:]
s = re.sub(r"holds \d+ changes written by independent sub-agents \(\w+ waves\)", "holds %d changes written by independent sub-agents (seventeen waves)" % len(names), s)
open(p, "w", encoding="utf-8").write(s)
print(len(names), "rows")
