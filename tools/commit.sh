#!/bin/bash
# Stages everything except Coq files that are not (yet) registered in coq/_CoqProject (work in progress of a
# proof author), refuses to commit a registered file that contains Admitted / admit / Axiom / Parameter, commits.
#   tools/commit.sh "message"
cd "$(dirname "$0")/.."
git add -A
listed=$(grep '\.v$' coq/_CoqProject | sed 's#^#coq/#')
for f in $(git ls-files 'coq/*.v' 'coq/**/*.v'); do
  if [ "$f" != "coq/Extract.v" ] && ! echo "$listed" | grep -qx "$f"; then
    git rm -q --cached "$f"
  fi
done
bad=$(python3 -c "
import sys; sys.path.insert(0,'tools'); import rxlib
print('\n'.join(rxlib.scan_sources()))")
if [ -n "$bad" ]; then echo "refusing to commit: $bad"; exit 1; fi
git commit -q -m "$1" && git log --oneline | head -1
