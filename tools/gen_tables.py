#!/usr/bin/env python3
"""Translator: reads the tables and constants that parameterise roxmltree's behaviour out of
/repo/src and writes coq/Generated.v.  The model imports Generated.v, so the theorems that
depend on these values are re-checked by the Coq kernel against what the source says now.

If the source no longer has the shape this script understands it exits with status 3
("tie lost") instead of guessing.
"""
import json, re, sys, os

REPO = os.environ.get("VERIF_REPO", "/repo")
_args = [a for a in sys.argv[1:] if not a.startswith("--")]
OUT = _args[0] if _args else os.path.join(os.path.dirname(__file__), "..", "coq", "Generated.v")


class TieLost(Exception):
    pass


def read(p):
    with open(os.path.join(REPO, p), encoding="utf-8") as f:
        return f.read()


def block_after(src, header_re, what):
    """text of the brace block that starts at the first '{' after header_re"""
    m = re.search(header_re, src)
    if not m:
        raise TieLost("cannot find %s (%s)" % (what, header_re))
    i = src.index("{", m.end() - 1) if src[m.end() - 1] == "{" else src.index("{", m.end())
    depth = 0
    for j in range(i, len(src)):
        if src[j] == "{":
            depth += 1
        elif src[j] == "}":
            depth -= 1
            if depth == 0:
                return src[i + 1:j], src.count("\n", 0, m.start()) + 1
    raise TieLost("unbalanced braces after " + what)


def fn_body(block, name, what):
    body, _ = block_after(block, r"fn\s+" + name + r"\s*\(\s*&self\s*\)\s*->\s*bool\s*\{", what + "::" + name)
    return body


def strip_comments(s):
    return re.sub(r"//[^\n]*", "", s)


def lit(tok):
    tok = tok.strip()
    m = re.fullmatch(r"0x([0-9A-Fa-f_]+)", tok)
    if m:
        return int(m.group(1).replace("_", ""), 16)
    m = re.fullmatch(r"[0-9_]+", tok)
    if m:
        return int(tok.replace("_", ""))
    m = re.fullmatch(r"b'(\\?.)'", tok)
    if m:
        c = m.group(1)
        esc = {"\\t": 9, "\\n": 10, "\\r": 13, "\\'": 39, "\\\\": 92}
        return esc[c] if c in esc else ord(c)
    raise TieLost("cannot read literal %r" % tok)


def matches_arms(body, what):
    """the alternatives of the (single) matches!(...) in body as a list of (lo, hi)"""
    m = re.search(r"matches!\s*\(", body)
    if not m:
        raise TieLost("no matches! in " + what)
    i = m.end()
    depth = 1
    j = i
    while depth:
        if body[j] == "(":
            depth += 1
        elif body[j] == ")":
            depth -= 1
        j += 1
    inner = body[i:j - 1]
    scrut, pats = inner.split(",", 1)
    arms = []
    for alt in pats.split("|"):
        alt = alt.strip()
        if not alt:
            continue
        if "..=" in alt:
            lo, hi = alt.split("..=")
            arms.append((lit(lo), lit(hi)))
        else:
            v = lit(alt)
            arms.append((v, v))
    negated = bool(re.search(r"!\s*matches!", body))
    return arms, negated


def coq_ranges(rs):
    return "[" + "; ".join("(%d, %d)" % r for r in rs) + "]"


def coq_bytes(s):
    return "[" + "; ".join(str(x) for x in s.encode("utf-8")) + "]"


FALLBACK = os.path.join(os.path.dirname(os.path.abspath(__file__)), "generated_fallback.json")
STATUS = os.path.join(os.path.dirname(os.path.abspath(__file__)), "..", "build", "tie_status.json")


def load_fallback():
    try:
        with open(FALLBACK, encoding="utf-8") as f:
            return json.load(f)
    except (OSError, ValueError):
        return {}


def run_section(name, fn, args, out, sections, weak, fallback):
    """One group of definitions.  When the source no longer has a shape the translator reads, the
    group falls back to the values last read from the pinned source (generated_fallback.json) and the
    group is reported as untied: for it the correspondence check (with its boundary inputs for exactly
    these constants) is the only tie.  A missing fallback is fatal."""
    lines = []
    try:
        fn(lines.append, *args)
        sections[name] = lines
    except TieLost as e:
        if name not in fallback:
            raise
        weak.append({"section": name, "reason": str(e)})
        lines = list(fallback[name])
    out.extend(lines)


def sec_chars(w, tok, par, lib, lib_raw):
    cblock, cl = block_after(tok, r"impl\s+XmlCharExt\s+for\s+char\s*\{", "impl XmlCharExt for char")
    bblock, bl = block_after(tok, r"impl\s+XmlByteExt\s+for\s+u8\s*\{", "impl XmlByteExt for u8")

    for fname, cname in (("is_xml_name_start", "name_start"), ("is_xml_name", "name")):
        body = fn_body(cblock, fname, "char")
        m = re.search(r"if\s+\*self\s+as\s+u32\s*(<=|<)\s*(\w+)\s*\{\s*return\s+\(\*self\s+as\s+u8\)\." + fname + r"\(\)\s*;", body)
        if not m:
            raise TieLost("char::%s: ASCII fast path not recognised" % fname)
        cut = lit(m.group(2)) + (1 if m.group(1) == "<=" else 0)   # c < cut  -> byte version
        arms, neg = matches_arms(body, "char::" + fname)
        if neg:
            raise TieLost("char::%s: unexpected negation" % fname)
        w("(* tokenizer.rs, impl XmlCharExt for char, fn %s *)" % fname)
        w("Definition char_%s_ascii_cut : N := %d.   (* c < cut: decided by the u8 table *)" % (cname, cut))
        w("Definition char_%s_ranges : list (N * N) := %s." % (cname, coq_ranges(arms)))
        w("")

    body = fn_body(cblock, "is_xml_char", "char")
    m = re.search(r"if\s+\(\*self\s+as\s+u32\)\s*<\s*(\w+)\s*\{\s*return\s+\(\*self\s+as\s+u8\)\.is_xml_space\(\)\s*;", body)
    if not m:
        raise TieLost("char::is_xml_char: control-character test not recognised")
    ctl = lit(m.group(1))
    arms, neg = matches_arms(body, "char::is_xml_char")
    if not neg:
        raise TieLost("char::is_xml_char: expected !matches!")
    w("(* tokenizer.rs, impl XmlCharExt for char, fn is_xml_char *)")
    w("Definition char_char_ctl_cut : N := %d.      (* c < cut: Char iff is_xml_space *)" % ctl)
    w("Definition char_char_excluded : list (N * N) := %s." % coq_ranges(arms))
    w("")

    for fname, cname in (("is_xml_space", "space"), ("is_xml_name_start", "name_start"), ("is_xml_name", "name")):
        body = fn_body(bblock, fname, "u8")
        arms, neg = matches_arms(body, "u8::" + fname)
        if neg:
            raise TieLost("u8::%s: unexpected negation" % fname)
        w("(* tokenizer.rs, impl XmlByteExt for u8, fn %s *)" % fname)
        w("Definition byte_%s_ranges : list (N * N) := %s." % (cname, coq_ranges(arms)))
    body = fn_body(bblock, "is_xml_char", "u8")
    m = re.search(r"\*self\s*>\s*(\w+)\s*\|\|\s*self\.is_xml_space\(\)", body)
    if not m:
        raise TieLost("u8::is_xml_char not recognised")
    w("Definition byte_char_gt : N := %d.            (* b > gt || is_xml_space *)" % lit(m.group(1)))
    w("")



def sec_detector(w, tok, par, lib, lib_raw):
    ld, ll = block_after(par, r"impl\s+LoopDetector\s*\{", "impl LoopDetector")
    m = re.search(r"if\s+self\.(\w+)\s*<\s*(\d+)\s*\{\s*self\.\1\s*\+=\s*1;", ld)
    if not m:
        raise TieLost("LoopDetector::inc_depth not recognised")
    w("(* parse.rs, impl LoopDetector *)")
    w("Definition ld_max_depth : N := %d." % int(m.group(2)))
    m = re.search(r"if\s+self\.\w+\s*==\s*(u8::MAX|[1-9]\d*)\s*\{", ld)
    if not m:
        raise TieLost("LoopDetector::inc_references not recognised")
    w("Definition ld_max_refs : N := %d." % (255 if m.group(1) == "u8::MAX" else int(m.group(1))))
    m = re.search(r"if\s+self\.\w+\s*==\s*0\s*\{\s*Ok\(\(\)\)", ld)
    if not m:
        raise TieLost("LoopDetector::inc_references: depth-zero exemption not recognised")
    w("")



def sec_nslimit(w, tok, par, lib, lib_raw):
    m = re.search(r"if\s+self\.\w+\.len\(\)\s*>\s*(u16::MAX)\s+as\s+usize\s*\{\s*return\s+Err\(Error::NamespacesLimitReached\)", lib)
    if not m:
        raise TieLost("Namespaces::push_ns limit test not recognised")
    w("(* lib.rs, Namespaces::push_ns: values.len() > limit -> NamespacesLimitReached *)")
    w("Definition ns_values_limit : N := 65535.")
    w("")



def sec_saturation(w, tok, par, lib, lib_raw):
    m1 = re.search(r"\w+\s*=\s*u16::try_from\([^;]*?\)\.unwrap_or\(u16::MAX\)", tok)
    m2 = re.search(r"\w+\s*=\s*u8::try_from\([^;]*?\)\.unwrap_or\(u8::MAX\)", tok)
    if not (m1 and m2):
        raise TieLost("qname_len / eq_len saturation not recognised")
    w("(* tokenizer.rs, parse_element: saturating casts of the attribute position fields *)")
    w("Definition qname_len_sat : N := 65535.")
    w("Definition eq_len_sat : N := 255.")
    w("")



def sec_reserved(w, tok, par, lib, lib_raw):
    for cname, name in (("ns_xml_uri", "NS_XML_URI"), ("ns_xml_prefix", "NS_XML_PREFIX"),
                        ("ns_xmlns_uri", "NS_XMLNS_URI"), ("xmlns_str", "XMLNS")):
        m = re.search(r"const\s+" + name + r"\s*:\s*&str\s*=\s*\"([^\"]*)\"\s*;", lib_raw)
        if not m:
            raise TieLost("constant %s not found" % name)
        w("(* lib.rs: const %s = \"%s\" *)" % (name, m.group(1)))
        w("Definition %s : list N := %s." % (cname, coq_bytes(m.group(1))))
    w("")



def sec_defaults(w, tok, par, lib, lib_raw):
    m = re.search(r"impl\s+Default\s+for\s+ParsingOptions\s*\{.*?allow_dtd:\s*(true|false)\s*,\s*nodes_limit:\s*(u32::MAX|\d+)", par, re.S)
    if not m:
        raise TieLost("Default for ParsingOptions not recognised")
    w("(* parse.rs: impl Default for ParsingOptions *)")
    w("Definition default_allow_dtd : bool := %s." % m.group(1))
    w("Definition default_nodes_limit : N := %s." % ("4294967295" if m.group(2) == "u32::MAX" else m.group(2)))
    m = re.search(r"pub\s+fn\s+parse\(text:\s*&str\)\s*->\s*Result<Document>\s*\{\s*Self::parse_with_options\(text,\s*ParsingOptions::default\(\)\)", par)
    if not m:
        raise TieLost("Document::parse is no longer parse_with_options(text, default())")
    w("")



def coq_string(s):
    return '"' + s.replace('"', '""') + '"'


def sec_display(w, tok, par, lib, lib_raw):
    """impl Display for Error (parse.rs) and for TextPos (lib.rs): one format per variant, as a list of pieces.
    DLit s: literal text; DArg i m: the i-th field of the variant (0-based, in declaration order), printed with
    Display (m = false) or Debug (m = true); `x as char` casts are recorded by DArgChar i."""
    blk, _ = block_after(par, r"impl\s+(?:core::|std::)?fmt::Display\s+for\s+Error\s*\{", "impl Display for Error")
    arms = re.findall(r"Error::(\w+)\s*(?:\(([^)]*)\))?\s*=>\s*\{?\s*write!\s*\(\s*f\s*,\s*\"((?:[^\"\\]|\\.)*)\"\s*((?:,\s*[^,)]+)*),?\s*\)", blk)
    if len(arms) < 10:
        raise TieLost("impl Display for Error: match arms not recognised")
    w("(* parse.rs, impl Display for Error: (variant, format pieces) *)")
    w("Inductive dpiece := DLit (s : string) | DArg (i : nat) (debug : bool) | DArgChar (i : nat).")
    rows = []
    for name, binds, fmt, args in arms:
        fields = [re.sub(r"^(ref\s+|mut\s+)+", "", b.strip()) for b in binds.split(",")] if binds.strip() else []
        argl = [a.strip() for a in args.split(",") if a.strip()]
        pieces = []
        k = 0
        for part in re.split(r"(\{[^}]*\})", fmt):
            if part in ("{}", "{:?}"):
                if k >= len(argl):
                    raise TieLost("Display for Error::%s: more placeholders than arguments" % name)
                a = argl[k]
                k += 1
                m = re.fullmatch(r"\*?(\w+)(\s+as\s+char)?", a)
                if not m or m.group(1) not in fields:
                    raise TieLost("Display for Error::%s: argument %r not a field" % (name, a))
                i = fields.index(m.group(1))
                if m.group(2):
                    if part != "{}":
                        raise TieLost("Display for Error::%s: cast with {:?}" % name)
                    pieces.append("DArgChar %d" % i)
                else:
                    pieces.append("DArg %d %s" % (i, "true" if part == "{:?}" else "false"))
            elif part.startswith("{"):
                raise TieLost("Display for Error::%s: placeholder %s not supported" % (name, part))
            elif part:
                if "\\" in part:
                    raise TieLost("Display for Error::%s: escape in format string" % name)
                pieces.append("DLit " + coq_string(part))
        if k != len(argl):
            raise TieLost("Display for Error::%s: unused arguments" % name)
        rows.append("  (%s, [%s])" % (coq_string(name), "; ".join(pieces)))
    w("Definition display_table : list (string * list dpiece) := [\n" + ";\n".join(rows) + "].")
    m = re.search(r"impl\s+fmt::Display\s+for\s+TextPos\s*\{.*?write!\s*\(\s*f\s*,\s*\"\{\}(.)\{\}\"\s*,\s*self\.row\s*,\s*self\.col\s*\)", lib, re.S)
    if not m:
        raise TieLost("impl Display for TextPos not recognised")
    w("(* lib.rs, impl Display for TextPos: row, separator, col *)")
    w("Definition textpos_sep : string := %s." % coq_string(m.group(1)))
    w("")


def sec_features(w, tok, par, lib, lib_raw):
    """every cfg(feature = ...) gate of the crate, classified.  The non-interference theorem for `positions`
    (Proofs/PositionsNonInterf.v) strips exactly the fields listed here; a gate of any other shape (a gated
    statement that is not a write to such a field, a gated branch) is not covered by it."""
    fields, accessors, writes, inits, drops, std_items = set(), [], 0, 0, 0, []
    for fname, src in (("lib.rs", lib), ("parse.rs", par), ("tokenizer.rs", tok)):
        for m in re.finditer(r"#\[cfg\((not\()?feature\s*=\s*\"(\w+)\"\)?\)\]\s*", src):
            neg, feat = bool(m.group(1)), m.group(2)
            rest = src[m.end():m.end() + 200]
            rest = re.sub(r"^(?:#\[(?!cfg)[^\]]*\]\s*)*", "", rest)
            item = "\n".join(rest.split("\n")[:2]).strip()
            if feat == "std":
                mm = re.match(r"(extern\s+crate\s+std\s*;|impl\s+std::error::Error\s+for\s+Error)", item)
                if neg or not mm:
                    raise TieLost("%s: cfg(feature = \"std\") gates something else than `extern crate std` / `impl std::error::Error`: %s" % (fname, item[:50]))
                std_items.append(re.sub(r"\s+", " ", mm.group(1)))
                continue
            if feat != "positions":
                raise TieLost("%s: unknown feature %s" % (fname, feat))
            if neg:
                if not re.match(r"let\s+_\s*=\s*[\w(), ]+;", item):
                    raise TieLost("%s: cfg(not(positions)) gates more than a `let _ = ...;`: %s" % (fname, item[:50]))
                drops += 1
                continue
            mm = re.match(r"(\w+)\s*:\s*(Range<usize>|u16|u8)\s*,", item)
            if mm:
                fields.add(mm.group(1))
                continue
            mm = re.match(r"(\w+)\s*(?::\s*[^,\n]+)?,\s*$", item.split("\n")[0])
            if mm:
                fields.add(mm.group(1))
                inits += 1
                continue
            mm = re.match(r"pub\s+fn\s+(\w+)\s*\(\s*&self\s*\)", item)
            if mm:
                accessors.append(mm.group(1))
                continue
            mm = re.match(r"\{\s*\w+\.(\w+)\.\w+\s*=\s*[^;]+;", item)
            if mm:
                fields.add(mm.group(1))
                writes += 1
                continue
            raise TieLost("%s: cfg(feature = \"positions\") gate of an unknown shape: %s" % (fname, item[:60]))
    w("(* every cfg(feature = ..) gate of src/*.rs, classified *)")
    w("Definition positions_gated_fields : list string := [%s]." % "; ".join(coq_string(x) for x in sorted(fields)))
    w("Definition positions_gated_accessors : list string := [%s]." % "; ".join(coq_string(x) for x in sorted(set(accessors))))
    w("Definition positions_gated_field_writes : nat := %d.   (* gated statements, each an assignment to a gated field *)" % writes)
    w("Definition positions_gated_initialisers : nat := %d." % inits)
    w("Definition positions_ungated_drops : nat := %d.        (* cfg(not(positions)): `let _ = ..;` only *)" % drops)
    w("Definition std_gated_items : list string := [%s]." % "; ".join(coq_string(x) for x in sorted(set(std_items))))
    w("")


def sec_errors(w, tok, par, lib, lib_raw):
    """pub enum Error (parse.rs): the variants with the types of their fields, in declaration order, and
    fn pos: per variant the index of the field that is returned, or None for TextPos::new(1, 1)."""
    blk, _ = block_after(par, r"pub\s+enum\s+Error\s*\{", "pub enum Error")
    blk = re.sub(r"#\[[^\]]*\]", "", blk)
    vs = re.findall(r"(\w+)\s*(?:\(([^)]*)\))?\s*,", blk)
    if len(vs) < 10:
        raise TieLost("pub enum Error: variants not recognised")
    tymap = {"TextPos": "TyPos", "String": "TyStr", "&'static str": "TyStr", "u8": "TyByte", "char": "TyChar"}
    rows = []
    arity = {}
    for name, fields in vs:
        fl = [f.strip() for f in fields.split(",") if f.strip()] if fields else []
        for f in fl:
            if f not in tymap:
                raise TieLost("pub enum Error: field type %r of %s not known" % (f, name))
        arity[name] = len(fl)
        rows.append("  (%s, [%s])" % (coq_string(name), "; ".join(tymap[f] for f in fl)))
    w("(* parse.rs, pub enum Error: (variant, field types) in declaration order *)")
    w("Inductive fty := TyPos | TyStr | TyByte | TyChar.")
    w("Definition error_enum : list (string * list fty) := [\n" + ";\n".join(rows) + "].")
    impl, _ = block_after(par, r"impl\s+Error\s*\{", "impl Error")
    body, _ = block_after(impl, r"fn\s+pos\s*\(\s*&self\s*\)\s*->\s*TextPos\s*\{", "Error::pos")
    arms = re.findall(r"((?:Error::\w+\s*(?:\([^)]*\))?\s*\|?\s*)+)=>\s*(TextPos::new\([^)]*\)|[^,]+?)\s*,", body)
    prow = []
    seen = set()
    for pats, rhs in arms:
        rhs = rhs.strip()
        for name, binds in re.findall(r"Error::(\w+)\s*(?:\(([^)]*)\))?", pats):
            bl = [re.sub(r"^(ref\s+|mut\s+)+", "", x.strip()) for x in binds.split(",")] if binds.strip() else []
            if name not in arity or (bl and ".." not in bl and len(bl) != arity[name]):
                raise TieLost("Error::pos: pattern of %s does not fit the enum" % name)
            if re.fullmatch(r"TextPos::new\(\s*1\s*,\s*1\s*\)", rhs):
                prow.append("  (%s, None)" % coq_string(name))
            elif re.fullmatch(r"\*?\w+", rhs) and rhs.lstrip("*") in bl and rhs.lstrip("*") != "_":
                prow.append("  (%s, Some %d%%nat)" % (coq_string(name), bl.index(rhs.lstrip("*"))))
            else:
                raise TieLost("Error::pos: right-hand side %r of %s not recognised" % (rhs, name))
            seen.add(name)
    if seen != set(arity):
        raise TieLost("Error::pos: arms do not cover the enum")
    w("(* parse.rs, Error::pos: the index of the field returned, None for TextPos::new(1, 1) *)")
    w("Definition pos_table : list (string * option nat) := [\n" + ";\n".join(prow) + "].")
    w("")


def write_if_changed(path, text):
    old = None
    if os.path.exists(path):
        with open(path, encoding="utf-8") as f:
            old = f.read()
    if old != text:
        with open(path, "w", encoding="utf-8") as f:
            f.write(text)
        print("gen_tables: wrote", path)


def main():
    weak = []
    fallback = load_fallback()
    sections = {}
    tok = strip_comments(read("src/tokenizer.rs"))
    par = strip_comments(read("src/parse.rs"))
    lib_raw = read("src/lib.rs")
    lib = strip_comments(lib_raw)
    out = []
    w = out.append
    w("(* GENERATED by tools/gen_tables.py from %s/src -- do not edit. *)" % REPO)
    w("From Coq Require Import List NArith.")
    w("Import ListNotations.")
    w("Open Scope N_scope.")
    w("")

    run_section('chars', sec_chars, (tok, par, lib, lib_raw), out, sections, weak, fallback)
    run_section('detector', sec_detector, (tok, par, lib, lib_raw), out, sections, weak, fallback)
    run_section('nslimit', sec_nslimit, (tok, par, lib, lib_raw), out, sections, weak, fallback)
    run_section('saturation', sec_saturation, (tok, par, lib, lib_raw), out, sections, weak, fallback)
    run_section('reserved', sec_reserved, (tok, par, lib, lib_raw), out, sections, weak, fallback)
    run_section('defaults', sec_defaults, (tok, par, lib, lib_raw), out, sections, weak, fallback)
    out2 = ["(* GENERATED by tools/gen_tables.py from %s/src -- do not edit. *)" % REPO,
            "From Coq Require Import List String.", "Import ListNotations.", "Open Scope string_scope.", ""]
    run_section('display', sec_display, (tok, par, lib, lib_raw), out2, sections, weak, fallback)
    write_if_changed(OUT.replace("Generated.v", "GeneratedDisplay.v"), "\n".join(out2) + "\n")
    out3 = ["(* GENERATED by tools/gen_tables.py from %s/src -- do not edit. *)" % REPO,
            "From Coq Require Import List String.", "Import ListNotations.", "Open Scope string_scope.", ""]
    run_section('features', sec_features, (tok, par, lib, lib_raw), out3, sections, weak, fallback)
    write_if_changed(OUT.replace("Generated.v", "GeneratedFeatures.v"), "\n".join(out3) + "\n")
    out4 = ["(* GENERATED by tools/gen_tables.py from %s/src -- do not edit. *)" % REPO,
            "From Coq Require Import List String.", "Import ListNotations.", "Open Scope string_scope.", ""]
    run_section('errors', sec_errors, (tok, par, lib, lib_raw), out4, sections, weak, fallback)
    write_if_changed(OUT.replace("Generated.v", "GeneratedErrors.v"), "\n".join(out4) + "\n")
    text = "\n".join(out) + "\n"
    old = None
    if os.path.exists(OUT):
        with open(OUT, encoding="utf-8") as f:
            old = f.read()
    if old != text:
        with open(OUT, "w", encoding="utf-8") as f:
            f.write(text)
        print("gen_tables: wrote", OUT)
    else:
        print("gen_tables: unchanged")
    os.makedirs(os.path.dirname(STATUS), exist_ok=True)
    with open(STATUS, "w", encoding="utf-8") as f:
        json.dump({"untied": weak}, f, indent=1)
    for x in weak:
        print("gen_tables: UNTIED section %s (%s): values of the pinned source used; the correspondence check is the tie" % (x["section"], x["reason"]))
    if "--write-fallback" in sys.argv:
        if weak:
            print("gen_tables: not writing the fallback: some sections were not read")
            sys.exit(3)
        with open(FALLBACK, "w", encoding="utf-8") as f:
            json.dump(sections, f, indent=1)
        print("gen_tables: wrote", FALLBACK)


if __name__ == "__main__":
    try:
        main()
    except TieLost as e:
        print("gen_tables: TIE LOST:", e)
        sys.exit(3)
