#!/bin/bash
# compile the stage-11 soundness chain in order, stop at the first failure:  build.sh [first-file]
cd /verif/coq; mkdir -p /tmp/s11s
ORDER="11 11Aux 11PEnt 11Lex 11Dtd 11Text 11Doc 11Val 11RText 11RTok 11RTag 11Nest 11BText 11BMain 11Cls 11RDoc 11Final"
start=${1:-11}; go=0
for f in $ORDER; do
  [ "$f" = "$start" ] && go=1
  [ $go = 1 ] || continue
  s=$(date +%s)
  if ! timeout 1800 coqc -Q . RX Proofs/CstSound$f.v > /tmp/s11s/$f.log 2>&1; then echo "FAIL CstSound$f ($(( $(date +%s)-s )) s)"; grep -v conda /tmp/s11s/$f.log | tail -40; exit 1; fi
  echo "ok CstSound$f ($(( $(date +%s)-s )) s)"
done
