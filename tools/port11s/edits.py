# per-file edits of tools/port11s/port.py (exec'd there: rep1, edit, re are in scope)

@edit('PEnt')
def _(s):
    # only the two lemmas on the relaxed condition; the helpers come from CstSound10PEnt
    i=s.index('Lemma all_suffixes_app_r'); j=s.index('Lemma charref_val_ok_inv')
    s=s[:i]+s[j:]
    s=rep1(s,'Definition vchar_ok (q : N) (x : N) : Prop := x <> 60 /\\ x <> q.\n','')
    for a,b in [('amp_ok10','amp_ok11'),('charref_val_ok10','charref_val_ok11'),('wf_uepiece10','wf_uepiece11'),
                ('charref_ok10','charref_ok11'),('ge_pieces','ge_pieces11'),('charref_val_ok_inv','charref_val_ok_inv11')]:
        s=re.sub(r'\b%s\b'%a,b,s)
    return s

@edit('Lex')
def _(s):
    s=rep1(s,'| SEntity e => wf_xdecl10 (S6.xdecl_of e) && is_etext e','| SEntity e => wf_xdecl11w (S6.xdecl_of e) && is_etext e')
    s=rep1(s,'  fp_ge6 : ge_values_ok10 text = true\n}.','  fp_ge6 : ge_values_ok11 text = true;\n  fp_use : refs_in_content text = true\n}.')
    s=rep1(s,'Lemma in_fragment_11s_Frag11 text : in_fragment_10 text = true -> Frag11 text.','Lemma in_fragment_11s_Frag11 text : in_fragment_11s text = true -> Frag11 text.')
    s=rep1(s,'unfold in_fragment_10, no_colon_start.','unfold in_fragment_11s, no_colon_start.')
    # the literal of a general entity declaration without '<': references to TAB / LF admitted
    s=rep1(s,'''Lemma ge_value_decl10 q cs : q = 39 \\/ q = 34 -> mem_b 60 (utf8s cs) = false -> contains_b [93; 93; 62] (utf8s cs) = false ->
  all_suffixes amp_ok10 (utf8s cs) = true -> Forall (fun y => y <> q) (utf8s cs) -> uchars cs ->
  exists ps, E.r_epieces (enc_epieces ps) = utf8s cs /\\ wf_uepieces10 q false true true ps = true.
Proof.
  intros Hq H60 Hcc Hamp Hnq Hu.''','''Lemma ge_value_decl10 q cs : q = 39 \\/ q = 34 -> mem_b 60 (utf8s cs) = false -> contains_b [93; 93; 62] (utf8s cs) = false ->
  all_suffixes amp_ok11 (utf8s cs) = true -> Forall (fun y => y <> q) (utf8s cs) -> uchars cs -> Forall (fun y => y <> 13) (utf8s cs) ->
  exists ps, E.r_epieces (enc_epieces ps) = utf8s cs /\\ wf_uepieces11 q false true true ps = true.
Proof.
  intros Hq H60 Hcc Hamp Hnq Hu H13.''')
    s=rep1(s,'''  destruct (ge_pieces q Hq128 (length cs) cs (le_n _) Hu Hv Hcc Hamp) as (ps & A & B0 & C0 & _).
  exists ps. split; [exact A|]. unfold wf_uepieces10; rewrite B0, C0; reflexivity.''','''  destruct (ge_pieces11 q Hq128 (length cs) cs (le_n _) Hu Hv Hcc Hamp) as (ps & A & B0 & C0 & _).
  exists ps. split; [exact A|]. unfold wf_uepieces11; rewrite B0, C0; cbn [andb]. apply lf_ok_nocr. rewrite A. exact H13.''')
    s=rep1(s,'unfold ge_decl_ok10 in HG.','unfold ge_decl_ok11 in HG.')
    s=rep1(s,'cbn [app lit_ok10] in HG.','cbn [app lit_ok11] in HG.')
    s=rep1(s,'match type of HG with ge_value_ok10 _ ?P _ = _ =>','match type of HG with ge_value_ok11 _ ?P _ = _ =>')
    s=rep1(s,'unfold ge_value_ok10 in HG.','unfold ge_value_ok11 in HG.')
    s=rep1(s,'destruct (ge_value_decl10 y v Hq E60 HGm HGamp Hnq\' Hu) as (ps & Eps & Hwfps).',
             'destruct (ge_value_decl10 y v Hq E60 HGm HGamp Hnq\' Hu (W_cr_l text HF _ _ _ (WV_W _ _ _ HWv))) as (ps & Eps & Hwfps).')
    s=rep1(s,'{ cbn [wf_sdecl]. unfold wf_xdecl10, wf_xvalue10, S6.xdecl_of, is_etext.','{ cbn [wf_sdecl]. unfold wf_xdecl11w, wf_xvalue11w, S6.xdecl_of, is_etext.')
    return s

@edit('Val')
def _(s):
    s=rep1(s,'intros [A B0 C0 D E F G H _ _ _ _ _]. constructor; assumption.','intros [A B0 C0 D E F G H _ _ _ _ _ _]. constructor; assumption.')
    return s

HMK2='''Hypothesis Hmk : forall d its, In d decls -> E.e_value d = E.EContent its ->
  (mem_b 60 (E.r_value (E.e_value d)) = true /\\ U8.Valid (E.r_value (E.e_value d))) \\/ ImpT decls d.
'''
def nohmk(s):
    # the hypothesis "a content-valued declaration is markup or mentions a content-valued entity" is not used any more:
    # attribute values contain no entity reference (fp_use)
    s=rep1(s,HMK2,'')
    s=s.replace('([Hmk], [Hvals]','([Hvals]')
    s=re.sub(r'\bHdecls Hmk\b','Hdecls',s)
    s=s.replace('tag_sound_r text HF decls ets Henv Hdecls Hnames','tag_sound_r text HF decls ets Henv Hdecls')
    assert 'Hmk' not in s, [l for l in s.split('\n') if 'Hmk' in l][:5]
    return s

@edit('RText')
def _(s):
    s=rep1(s,'''Hypothesis Hmk : forall d its, In d decls -> E.e_value d = E.EContent its ->
  (mem_b 60 (E.r_value (E.e_value d)) = true /\\ U8.Valid (E.r_value (E.e_value d))) \\/ ImpT d.
''','')
    s=rep1(s,'''  WS e p l more -> (exists dn, U8.Valid (dn ++ l)) ->
  WfParse.nattr_loop text j ets fu (sst e p (l ++ more)) t ld = Ok (t', ld') ->
  exists ps Q tr, l = E.r_epieces ps /\\ beps_ok ps /\\''','''  WS e p l more -> (exists dn, U8.Valid (dn ++ l)) -> mem_b 60 l = false -> Qm more ->
  WfParse.nattr_loop text j ets fu (sst e p (l ++ more)) t ld = Ok (t', ld') ->
  exists ps Q tr, l = E.r_epieces ps /\\ beps_ok ps /\\''')
    # the window lemma, before AttrSkel
    s=rep1(s,'Definition AttrSkel (j : nat) : Prop :=','''Lemma m60_step e p p' l l' more : WS e p l more -> WS e p' l' more -> p <= p' -> mem_b 60 l = false -> mem_b 60 l' = false.
Proof.
  intros [[E1 _] L1] [[E2 _] L2] Hle H.
  assert (El : l' = skipn (N.to_nat (p' - p)) l).
  { assert (E3 : skipn (N.to_nat (p' - p)) (l ++ more) = l' ++ more).
    { rewrite <- E1, skipn_add. replace (N.to_nat (p' - p) + N.to_nat p)%nat with (N.to_nat p') by lia. exact E2. }
    rewrite skipn_app in E3. unfold blen in L1, L2.
    replace (N.to_nat (p' - p) - length l)%nat with 0%nat in E3 by lia. cbn [skipn] in E3.
    apply app_inv_tail in E3. symmetry. exact E3. }
  rewrite El. apply mem60_skipn. exact H.
Qed.

Definition AttrSkel (j : nat) : Prop :=''')
    i=s.index('Lemma nattr_skel_step'); j=s.index('Theorem nattr_skel :')
    seg=s[i:j]
    seg=rep1(seg,"intros e p l more t ld t' ld' HW HV H; cbn [WfParse.nattr_loop] in H; [noerr|].","intros e p l more t ld t' ld' HW HV H60 HQm H; cbn [WfParse.nattr_loop] in H; [noerr|].")
    a=seg.index('    + (* a reference to a declared entity *)'); b2=seg.index('  - destruct ((x =? 60) && (0 <? ld_depth ld)); [noerr|].')
    seg=seg[:a]+'''    + (* a reference to an entity: the use-site condition of the fragment excludes it from every attribute value *)
      exfalso. subst l1. destruct HW0 as [Esk _].
      apply (ref_use_refute text (N.to_nat p) (name ++ 59 :: l5) more (fp_use _ HF) Esk).
      * destruct name as [|y nm']; intros r' Er'; [discriminate Er'|].
        inversion Hnb as [|? ? (_ & Hy & _) _]; subst. cbn [app] in Er'. injection Er' as Ey _. exact (Hy Ey).
      * rewrite <- app_assoc. cbn [app]. apply predef_ref_false; [|exact Hnp].
        eapply Forall_impl; [|exact Hnb]. intros y0 Hy0. apply Hy0.
      * cbn [mem_b] in H60. apply orb_false_iff in H60. apply H60.
      * exact HQm.
'''+seg[b2:]
    seg=rep1(seg,"destruct (IH _ _ _ _ _ _ _ _ HW' HV' H) as (ps & Q & tr & -> & Hps & Hi & Hr & HQ).",
                 "destruct (IH _ _ _ _ _ _ _ _ HW' HV' (m60_step _ _ _ _ _ _ HW HW' ltac:(lia) H60) HQm H) as (ps & Q & tr & -> & Hps & Hi & Hr & HQ).",2)
    seg=rep1(seg,"destruct (IH _ _ _ _ _ _ _ _ (WS_cons _ _ _ _ _ HW) HV' H) as (ps & Q & tr & -> & Hps & Hi & Hr & HQ).",
                 "destruct (IH _ _ _ _ _ _ _ _ (WS_cons _ _ _ _ _ HW) HV' (m60_step _ _ _ _ _ _ HW (WS_cons _ _ _ _ _ HW) ltac:(lia) H60) HQm H) as (ps & Q & tr & -> & Hps & Hi & Hr & HQ).")
    s=s[:i]+seg+s[j:]
    assert 'Hmk' not in s
    return s

NSK_OLD='destruct (nattr_skel text HF decls ets Henv Hdecls Hnames _ _ _ _ _ _ _ _ _ _ HWS HV Hq0) as (ps & Q & tr & E1 & Hps & Hi & Hr & HQ).'

@edit('RTok')
def _(s):
    s=nohmk(s)
    s=rep1(s,NSK_OLD,'''assert (QM : Qm ([q] ++ more)) by (exists q, more; split; [reflexivity|tauto]).
      assert (M60 : mem_b 60 (utf8s v) = false) by (apply scalars_nomem60; eapply Forall_impl; [|exact Hb]; intros x0 Hx0; apply Hx0).
      destruct (nattr_skel text HF decls ets _ _ _ _ _ _ _ _ _ _ HWS HV M60 QM Hq0) as (ps & Q & tr & E1 & Hps & Hi & Hr & HQ).''')
    return s

@edit('RTag')
def _(s):
    s=nohmk(s)
    # value_r no longer depends on Hnames (it was used by the branch of nattr_skel that is now excluded)
    s=rep1(s,'value_r text HF decls ets Henv Hdecls Hnames','value_r text HF decls ets Henv Hdecls',2)
    return s

@edit('Nest')
def _(s):
    s=nohmk(s)
    s=rep1(s,NSK_OLD,'''assert (QM : Qm ([q] ++ more)) by (exists q, more; split; [reflexivity|tauto]).
      assert (M60 : mem_b 60 (utf8s v) = false) by (rewrite Eps; apply forallb_nomem60; apply (uep_bytes true _ Huep)).
      destruct (nattr_skel text HF decls ets _ _ _ _ _ _ _ _ _ _ HWS HV M60 QM Hq0) as (ps & Q & tr & E1 & Hps & Hi & Hr & HQ).''')
    return s

@edit('BText')
def _(s):
    s=nohmk(s)
    # a content value that is character data: its pieces may hold references to TAB / LF (any mode: uep_ok false)
    s=rep1(s,'its = [@IText epieces vps0] /\\ Forall (uep_ok true) (enc_epieces vps0) /\\','its = [@IText epieces vps0] /\\ Forall (uep_ok false) (enc_epieces vps0) /\\')
    s=rep1(s,'  Forall (uep_ok true) vps -> contains_b n3 (E.r_epieces vps) = false -> E.no_adjacent_elit vps = true ->',
             '  Forall (uep_ok false) vps -> contains_b n3 (E.r_epieces vps) = false -> E.no_adjacent_elit vps = true ->')
    s=rep1(s,'destruct (uep_bytes true vps Hok) as (Hustr & H60).','destruct (uep_bytes false vps Hok) as (Hustr & H60).')
    s=rep1(s,'apply (uep_nil true) in Evb;','apply (uep_nil false) in Evb;')
    s=rep1(s,'apply (uep_beps true); assumption|rewrite Evb; symmetry; exact E1]). subst ps1.','apply (uep_beps false); assumption|rewrite Evb; symmetry; exact E1]). subst ps1.')
    a="destruct (nest_text j' vs _ tail es0 c3 sx c4 stk k' IHj Hok Hn3 Hadj HWv Hes HS3 HR3 Hd3 (proj2 Hpos3) Hq4)"
    assert s.count(a)==2
    s=s.replace(a,"destruct (nest_text j' vs _ tail es0 c3 sx c4 stk k' IHj (Forall_impl _ CstFullS10aPlug.uep_weaken Hok) Hn3 Hadj HWv Hes HS3 HR3 Hd3 (proj2 Hpos3) Hq4)",1)
    s=rep1(s,'markup_use text HF xds ets Henv Hdecls Hnames','markup_use text HF xds ets Henv Hdecls')
    return s

@edit('BMain')
def _(s): return nohmk(s)

@edit('RDoc')
def _(s):
    # ---- the DOCTYPE as read: wf_doctype11w ----
    s=rep1(s,'Lemma wf_to6 s : wf_sdecl s = true -> wf_sdecl10 (to6 s) = true.','Lemma wf_to6 s : wf_sdecl s = true -> wf_sdecl11w (to6 s) = true.')
    s=rep1(s,'''  destruct s; cbn [to6 wf_sdecl10 wf_sdecl is_sentity negb andb wf_other7]; intros H; try exact H.
  - apply andb_true_iff in H. apply H.
  - apply andb_true_iff in H. apply H.''','''  destruct s; cbn [to6 wf_sdecl11w wf_sdecl is_sentity negb andb wf_other7]; intros H; try exact H.
  - apply andb_true_iff in H. apply H.
  - apply andb_true_iff in H. apply xdecl_11w. apply H.''')
    s=rep1(s,'Lemma wf_dt6 t : wf_doctype t = true -> wf_doctype10 (dt6 t) = true.','Lemma wf_dt6 t : wf_doctype t = true -> wf_doctype11w (dt6 t) = true.')
    s=rep1(s,'unfold wf_doctype, wf_doctype10, dt6.','unfold wf_doctype, wf_doctype11w, dt6.')
    s=rep1(s,'unfold wf_subset in F. unfold wf_subset10.','unfold wf_subset in F. unfold wf_subset11w.')
    # ---- the witness is a document of S11 ----
    s=s.replace('S10.wf_doc','S11.wf_doc').replace('S10.render','S11.render').replace('S10.wf_dtd_part','S11.wf_dtd_part')
    s=rep1(s,'destruct root; try contradiction. rewrite Hwf. cbn [andb].','destruct root; try contradiction. rewrite (CstFullS11Main.uitem_11 _ _ Hwf). cbn [andb].')
    # ---- the declarations: facts from well-formedness as read, classification with three reasons ----
    i=s.index('(* what the declarations of a well-formed subset are for the character-data machine *)')
    j=s.index('Lemma wf_doctype_decls t')
    s=s[:i]+r'''(* the declarations of a well-formed subset, as read *)
Lemma xds_facts ds : forallb wf_sdecl ds = true -> Forall (fun d => wf_xdecl11w d = true) (xds_of ds).
Proof.
  induction ds as [|s r IH]; intros H; [constructor|]. cbn [forallb] in H. apply andb_true_iff in H. destruct H as [H1 H2].
  unfold xds_of. cbn [flat_map]. fold (xds_of r). apply Forall_app. split; [|exact (IH H2)].
  destruct s as [e|? ? ? ? ? ? ?|? ? ? ? ? ? ?|? ? ?|? ?|e]; try (constructor; fail).
  - cbn [wf_sdecl] in H1. apply andb_true_iff in H1. destruct H1 as [H1 _]. constructor; [exact H1|constructor].
  - cbn [wf_sdecl] in H1. apply andb_true_iff in H1. destruct H1 as [H1 _]. constructor; [apply xdecl_11w; exact H1|constructor].
Qed.

Lemma Forall2_in_l {A B : Type} (R : A -> B -> Prop) l1 l2 x : Forall2 R l1 l2 -> In x l1 -> exists y, In y l2 /\ R x y.
Proof.
  induction 1 as [|a b0 l1 l2 Hab _ IH]; intros Hin; [destruct Hin|].
  destruct Hin as [->|Hin]; [exists b0; split; [left; reflexivity|exact Hab]|].
  destruct (IH Hin) as (y & Hy & Hr). exists y. split; [right; exact Hy|exact Hr].
Qed.

(* ---- the classified declarations (Proofs/CstSound11Cls.v) ---- *)
Lemma pd_rc3_rvalue S d : E.r_value (E.e_value (pd (rc3 S d))) = E.r_value (E.e_value (pd d)).
Proof.
  change (E.e_value (pd (rc3 S d))) with (CstFullS4Sem.pv (X4.x_value (rc3 S d))). change (E.e_value (pd d)) with (CstFullS4Sem.pv (X4.x_value d)).
  rewrite !CstFullS4Sem.r_value_pv. apply rc3_rvalue.
Qed.

Lemma wfx_parts d : wf_xdecl11w d = true ->
  wf_name7 (X4.x_name d) = true /\ X4.x_quote d < 128 /\
  match X4.x_value d with X4.XText ps => wf_uepieces11 (X4.x_quote d) false true true ps = true | _ => True end.
Proof.
  unfold wf_xdecl11w. rewrite !andb_true_iff. intros [[[[[[_ _] Hn] _] Hq] Hv] _].
  split; [exact Hn|]. split; [unfold X5.is_quote in Hq; lia|].
  unfold wf_xvalue11w in Hv. apply andb_true_iff in Hv. destruct Hv as [_ Hv2]. destruct (X4.x_value d); [exact Hv2|exact I].
Qed.

(* a declaration as read whose literal has no reference to TAB / LF satisfies the conditions of stage 10 *)
Lemma wfx_10 d : wf_xdecl11w d = true -> match X4.x_value d with X4.XText ps => has_ws ps = false | _ => True end ->
  wf_xdecl10 d = true.
Proof.
  unfold wf_xdecl11w, wf_xdecl10. rewrite !andb_true_iff. intros [[[[[[H0 H1] Hn] H2] Hq] Hv] H3] Hw.
  repeat split; try assumption. unfold wf_xvalue11w in Hv. unfold wf_xvalue10. apply andb_true_iff in Hv. destruct Hv as [Hv1 Hv2].
  rewrite Hv1. cbn [andb]. destruct (X4.x_value d) as [ps|its]; [apply uepieces11_10; assumption|exact Hv2].
Qed.

Lemma env_rc3 S : forall xds ets, Forall2 env6o xds ets -> Forall (fun d => wf_xdecl11w d = true) xds ->
  Forall2 (env6 text) (map (rc3 S) xds) ets.
Proof.
  induction 1 as [|d en l1 l2 [Hu Huse] _ IH]; intros Hd; [constructor|]. cbn [map] in *. inversion Hd as [|? ? Hd1 Hd2]; subst.
  constructor; [|exact (IH Hd2)]. split.
  - destruct Hu as (Hn & vs & tail & Ev & HW). split; [cbn [pd E.e_name]; rewrite rc3_name; exact Hn|]. exists vs, tail. rewrite pd_rc3_rvalue. split; assumption.
  - rewrite rc3_value. destruct (wfx_parts d Hd1) as (_ & Hq & Hv).
    destruct (X4.x_value d) as [ps|its]; cbn [UseOKv] in *.
    + destruct (has_ws ps || refs_in S ps); [|exact I]. right. exists ps. split; [reflexivity|]. exact (xtext_weak _ ps Hq Hv).
    + left. exact Huse.
Qed.

Lemma okc_rc3 S : forall xds, Forall (fun d => wf_xdecl11w d = true) xds -> Forall CstFullS10bSem.udecl_okc (map pd (map (rc3 S) xds)).
Proof.
  induction xds as [|d r IH]; intros H; [constructor|]. cbn [map] in *. inversion H as [|? ? H1 H2]; subst. constructor; [|exact (IH H2)].
  unfold CstFullS10bSem.udecl_okc. change (E.e_value (pd (rc3 S d))) with (CstFullS4Sem.pv (X4.x_value (rc3 S d))). rewrite rc3_value.
  destruct (X4.x_value d) as [ps|its] eqn:Exv; [|exact I].
  destruct (has_ws ps || refs_in S ps) eqn:Eref; [exact I|]. apply orb_false_iff in Eref. destruct Eref as [Ews _].
  assert (H10 : wf_xdecl10 d = true) by (apply wfx_10; [exact H1|rewrite Exv; exact Ews]).
  destruct (CstFullS10Dtd.xdecl_of10 d H10) as (_ & Hokc & _). unfold CstFullS10bSem.udecl_okc in Hokc.
  change (E.e_value (pd d)) with (CstFullS4Sem.pv (X4.x_value d)) in Hokc. rewrite Exv in Hokc. exact Hokc.
Qed.

Lemma names_rc3 S : forall xds, Forall (fun d => wf_xdecl11w d = true) xds -> Forall (fun d => uname (E.e_name d)) (map pd (map (rc3 S) xds)).
Proof.
  induction xds as [|d r IH]; intros H; [constructor|]. cbn [map] in *. inversion H as [|? ? H1 H2]; subst. constructor; [|exact (IH H2)].
  cbn [pd E.e_name]. rewrite rc3_name. exists (X4.x_name d). split; [reflexivity|exact (proj1 (wfx_parts d H1))].
Qed.

'''+s[j:]
    s=rep1(s,'''      destruct (xds_facts _ Hwds) as [Hdecls0 Hnames0]. fold xds0 in Hdecls0, Hnames0.
      destruct (exists_cls xds0) as (Sc & HSound & HClosed).
      set (xds := map (rc Sc) xds0). set (decls := map pd xds).
      pose proof (env_rc Sc _ _ Fenv Hdecls0) as Fenv'. fold xds in Fenv'.
      pose proof (okc_rc Sc _ Hdecls0) as Hdecls. pose proof (names_rc Sc _ Hnames0) as Hnames. fold xds in Hdecls, Hnames. fold decls in Hdecls, Hnames.
      pose proof (hmk_rc Sc xds0 ets HSound Fenv Hdecls0) as Hmk. fold xds in Hmk. fold decls in Hmk.
      pose proof (cls_pure xds0 Sc HClosed) as Hpure. fold xds in Hpure.
''','''      pose proof (xds_facts _ Hwds) as Hwfx. fold xds0 in Hwfx.
      destruct (exists_cls3 xds0) as (Sc & HSound & HClosed).
      set (xds := map (rc3 Sc) xds0). set (decls := map pd xds).
      pose proof (env_rc3 Sc _ _ Fenv Hwfx) as Fenv'. fold xds in Fenv'.
      pose proof (okc_rc3 Sc _ Hwfx) as Hdecls. pose proof (names_rc3 Sc _ Hwfx) as Hnames. fold xds in Hdecls, Hnames. fold decls in Hdecls, Hnames.
      pose proof (cls_pure3 xds0 Sc HClosed) as Hpure. fold xds in Hpure.
''')
    s=rep1(s,'S6.g_dtd := rcdt Sc (dt6 t) |}).','S6.g_dtd := rcdt3 Sc (dt6 t) |}).')
    s=rep1(s,'rewrite G1, G2, (wf_rcdt10 Sc _ (wf_dt6 t Hwt)). reflexivity. }','rewrite G1, G2, (wf_rcdt3 Sc _ (wf_dt6 t Hwt)). reflexivity. }')
    s=rep1(s,'rewrite ge_rcdt, ge6_dt6; reflexivity','rewrite ge_rcdt3, ge6_dt6; reflexivity')
    s=rep1(s,'rewrite r_rcdt, r_dt6.','rewrite r_rcdt3, r_dt6.')
    s=rep1(s,'''(Forall_nil _) (fun d its (Hin : In d []) _ => match Hin with end)
                (fun d ps n d' ''','''(Forall_nil _)
                (fun d ps n d' ''')
    s=rep1(s,'in_fragment_10 text = true -> allow_dtd opt = true -> parse text opt = Ok d ->','in_fragment_11s text = true -> allow_dtd opt = true -> parse text opt = Ok d ->')
    s=nohmk(s)
    return s
