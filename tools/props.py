"""Per-property checks: generators, projection, oracle, relations, runtime families, verdict,
evidence.  See DESIGN.md section 5."""
import collections, hashlib, json, os, random, subprocess, sys, tempfile, time

import rxlib, gens, spec, oracles
from rxlib import Case, U32MAX, log, VERIF, BUILD

DRIVER = os.path.join(rxlib.OCAMLB, "driver")

TRUSTED_BASE = [
    "Coq 8.16.1 kernel (coqc, full .vo build; vm_compute used inside proofs only where stated)",
    "axioms: none declared, none used (Print Assumptions under every property theorem must say 'Closed under the global context')",
    "translator tools/gen_tables.py (character tables, limits, reserved strings -> coq/Generated.v)",
    "extraction: ExtrOcamlBasic only, no Extract Constant; N/positive/nat/string stay inductive",
    "OCaml driver ocaml/driver.ml and Rust harness harness/src/main.rs (dump printers, unverified glue)",
    "hand-written Gallina model coq/Model/*.v of tokenizer.rs, parse.rs, lib.rs: tied to /repo by the correspondence run of this check",
    "Python generators / reference functions tools/gens.py, tools/spec.py, tools/oracles.py: used for case generation and for the search of a failing input only",
]


class Prop:
    def __init__(self, pid, level, sections, cases, oracle=None, relation=None, extra=None, nontrivial=None,
                 rule="", technique="", known=None, model_side=True):
        self.pid, self.level, self.sections = pid, level, sections
        self.cases, self.oracle, self.relation, self.extra = cases, oracle, relation, extra
        self.nontrivial = nontrivial or (lambda c, lines: rxlib.result_class(lines) == "ok")
        self.rule, self.technique, self.known = rule, technique, known
        self.model_side = model_side


def all_oracles(*fs):
    def f(case, lines):
        for g in fs:
            r = g(case, lines)
            if r:
                return r
        return None
    return f


# ---------------------------------------------------------------------------------------------
# case lists
# ---------------------------------------------------------------------------------------------
def limits_for(n):
    return sorted(set([0, 1, 2, max(0, n - 1), n, n + 1, U32MAX]))


DTD_ZOO = [
    "<!DOCTYPE e [<!ELEMENT e ANY><!ATTLIST e a CDATA \"x>y\" b CDATA 'q'><!NOTATION n PUBLIC \"p'q\" 's\"t'><!ENTITY a \"v\"><!ENTITY % p \"w\">"
    "<!ENTITY x SYSTEM \"u\" NDATA n><!ENTITY y PUBLIC 'p' \"s\"><?pi d?><!--c-->]><e a=\"1\">&a;</e>",
    "<?xml version='1.0'?><!DOCTYPE e SYSTEM 'e.dtd' [ <!ENTITY a '<i k=\"&b;\"/>'> <!ENTITY b 'é'> ]><e>&a;<![CDATA[x]]></e><!--t-->",
    "<!DOCTYPE e PUBLIC \"-//A//B\" 'e.dtd'><e xmlns:p='u' p:a='1'><p:b/></e>",
]


def rxlib_valid_utf8(b_):
    try:
        b_.decode("utf-8")
        return True
    except UnicodeDecodeError:
        return False


def c01_cases(tier, seed):
    q = tier == "quick"
    cs = []
    cs += gens.g_meta(3 if q else 4, embed=True)
    cs += gens.g_tokens(2 if q else 3, flags="")
    cs += gens.g_prefixes(max_len=250 if q else 500, step=1)
    cs += gens.g_mutations(seed, 3000 if q else 30000)
    cs += gens.g_ent_cycles(12 if q else 32) + gens.g_ent_fanout([1, 2, 3, 16, 255, 256], [1, 2, 9, 10, 11]) + gens.g_ent_random(seed, 500 if q else 5000)
    cs += gens.g_cst(seed, 400 if q else 4000, flags="", renderings=2, hoist=True)
    cs += gens.g_nonchar() + gens.g_long(flags="")
    cs += gens.g_entity_value_prefixes() + gens.g_big_charrefs()
    w14 = gens.g_dup_attr_wide() + gens.g_utf8_bytes() + gens.g_cr_in_misc() + gens.g_prefix_out_of_scope() + gens.g_entity_value_chars() + \
        gens.g_cdata_tricky_nonchar() + gens.g_entity_names() + gens.g_pieces_attr_after(1) + gens.g_ns_entity_sibling() + \
        gens.g_ent_many_decls() + gens.g_ent_fanout_sep([2, 8], [2, 6])
    cs += [Case(c.data, "", True, meta={"gen": (c.meta or {}).get("gen", "?")}) for c in w14]
    # every proper prefix of documents that exercise every kind of DTD declaration, with quoted literals of both styles
    for zoo in DTD_ZOO:
        b_ = zoo.encode()
        cs += [Case(b_[:i], "", True, meta={"gen": "dtd-zoo-prefix", "cut": i}) for i in range(len(b_) + 1) if rxlib_valid_utf8(b_[:i])]
    cs += [Case(c.data, "", True, meta=c.meta) for c in gens.g_pieces_text(2 if q else 3)]
    cs += [Case(c.data, "", True, meta=c.meta) for c in gens.g_pieces_attr(2 if q else 3)]
    # option sweep on a sample
    rnd = random.Random(seed)
    extra = []
    for c in rnd.sample(cs, min(len(cs), 1500 if q else 15000)):
        extra.append(Case(c.data, "", rnd.random() < 0.5, rnd.choice([0, 1, 2, 5, U32MAX]), meta=c.meta))
    return cs + extra


def tree_cases(tier, seed, flags):
    q = tier == "quick"
    cs = gens.g_tokens(3 if q else 4, flags=flags)
    cs += gens.g_cst(seed, 600 if q else 6000, flags=flags, renderings=1, hoist=True)
    cs += gens.g_fixtures(flags=flags)
    cs += gens.g_ent_random(seed, 300 if q else 3000, flags=flags)
    cs += gens.g_mutations(seed, 1500 if q else 15000, flags=flags)
    cs += gens.g_long(flags=flags) + gens.g_api_shapes(flags=flags)
    # text runs made of every piece sequence (literals, CDATA incl. empty, references, empty entities)
    pieces = gens.g_pieces_text(2 if q else 3)
    cs += [Case(c.data, flags, True, meta=c.meta) for c in pieces]
    return cs


def c03_cases(tier, seed):
    q = tier == "quick"
    cs = gens.g_cst(seed, 1500 if q else 8000, flags="nc", renderings=4 if q else 8, hoist=False)
    cs += gens.g_fixtures(flags="nc")
    cs += [Case(c.data, "nc", True, meta=c.meta) for c in gens.g_cr_in_misc()]
    cs += gens.g_ns_entity_sibling(flags="nc")
    # a character-data entity that references a markup entity: the nodes of the inner entity are nodes, not text
    cs.append(Case("<!DOCTYPE r [<!ENTITY i '<b/><!--c--><?p v?>'><!ENTITY o 'x &i; y'>]><r>&o;</r>", "nc", True,
                   meta={"gen": "text-entity-over-markup", "expect_content": ["Q 1 - x72", "Q 3 - x62", "C 4 x63", "K 5 x70 x76"]}))
    cs.append(Case("<!DOCTYPE r [<!ENTITY item '<i/>'><!ENTITY alias '&item;'>]><r>&alias;&alias;</r>", "nc", True,
                   meta={"gen": "text-entity-over-markup", "expect_content": ["Q 1 - x72", "Q 2 - x69", "Q 3 - x69"]}))
    # the XML declaration with every kind of whitespace after '<?xml' (D12)
    for ws in (" ", "\t", "\n", "\r", "\r\n", " \t"):
        cs.append(Case("<?xml" + ws + "version='1.0'?><a/>", "nc", True,
                       meta={"gen": "decl-ws", "expect_content": ["Q 1 - x61"]}))
    cs += gens.g_long(flags="nc")
    # a parameter entity is not a general entity: a PE declared before a general entity of the same name does not bind it (D13)
    cs.append(Case("<!DOCTYPE r [<!ENTITY % part \"<!--from-pe--><x/>\"><!ENTITY part \"<y/><?p v?>\">]><r>&part;</r>", "nc", True,
                   meta={"gen": "pe-not-ge-markup", "expect_content": ["Q 1 - x72", "Q 2 - x79", "K 3 x70 x76"]}))
    cs.append(Case("<!DOCTYPE r [<!ENTITY % e '<!--c-->'><!ENTITY e '<a><b/></a>'><!ENTITY % f 'x'>]><r>&e;<c/></r>", "nc", True,
                   meta={"gen": "pe-not-ge-markup", "expect_content": ["Q 1 - x72", "Q 2 - x61", "Q 3 - x62", "Q 4 - x63"]}))
    # PI data with '?' in every position relative to the closing '?>'
    for data in ("?", "??", "???", "a?", "a??", "?a", "a?b", "is it so??", "x ? > ?"):
        cs.append(Case("<r><?q " + data + "?><a/><!--c--><?z done?></r>", "nc", True,
                       meta={"gen": "pi-question-marks", "expect_content": ["Q 1 - x72", "K 2 x71 " + spec.hexs(data), "Q 3 - x61", "C 4 x63", "K 5 x7a " + spec.hexs("done")]}))
    return cs


def c04_cases(tier, seed):
    q = tier == "quick"
    cs = gens.g_pieces_text(2 if q else 3) if q else gens.g_pieces_text(3)
    if q:
        rnd = random.Random(seed)
        more = gens.g_pieces_text(3, positions=(0,))
        cs += rnd.sample(more, min(len(more), 6000))
    else:
        rnd = random.Random(seed)
        more = gens.g_pieces_text(4, positions=(0,))
        cs += rnd.sample(more, min(len(more), 60000))
    cs += gens.g_cst(seed, 800 if q else 6000, flags="nc", renderings=2, hoist=False)
    cs += [c for c in gens.g_entity_names() + gens.g_entity_value_chars() + gens.g_charref_values() if "expect_text" in c.meta]
    cs += gens.g_long(flags="nc")
    # a name declared twice: the first declaration binds, in text as in attribute values and through another entity
    cs.append(Case("<!DOCTYPE r [<!ENTITY x 'ONE'><!ENTITY x 'TWO'><!ENTITY y '[&x;]'>]><r a='&x;'>&x;&y;<c b='&y;'/></r>", "nc", True,
                   meta={"gen": "first-wins-text", "expect_content": ["Q 1 - x72", "A 1 0 - x61 " + spec.hexs("ONE"), "X 2 " + spec.hexs("ONE[ONE]"),
                                                                      "Q 3 - x63", "A 3 0 - x62 " + spec.hexs("[ONE]")]}))
    cs += gens.g_ent_competing(flags="nc")
    return cs


def d18_cases():
    cs = []
    # an attribute whose local name is xmlns but which has a prefix is an ordinary attribute (D18)
    for pre, post in (("", ""), ("a='1' ", ""), ("", " b='2'"), ("xmlns='d' ", " c='3'")):
        attrs = []
        if "a=" in pre: attrs.append(("", "a", "1"))
        attrs.append(("p", "xmlns", "v"))
        if post: attrs.append(("", post.split("=")[0].strip(), post.split("'")[1]))
        decls = [("p", "u")] + ([("", "d")] if "xmlns='d'" in pre else [])
        e = spec.Elem("", "e", attrs, decls, [spec.Elem("", "c", [], [], [])])
        cs.append(Case("<e xmlns:p='u' " + pre + "p:xmlns='v'" + post + "><c/></e>", "nc", True,
                       meta={"gen": "prefixed-xmlns-attr", "expect_content": spec.expected_content(e, spec.Doc(e))}))
    return cs


def c05_cases(tier, seed):
    q = tier == "quick"
    cs = gens.g_pieces_attr(3 if q else 4)
    cs += gens.g_pieces_attr_in_entity(2 if q else 3)
    cs += gens.g_pieces_attr_after(1 if q else 2)
    cs += [c for c in gens.g_entity_names() + gens.g_entity_value_chars() + gens.g_charref_values() if "expect_attr" in c.meta]
    cs += gens.g_dup_attr_wide(flags="c") + gens.g_many_small_expansions(flags="c") + gens.g_reserved_uri_values(flags="c")
    cs += gens.g_cst(seed, 800 if q else 6000, flags="nc", renderings=2, hoist=False)
    # attribute lists interleaved with declarations, 0..40 attributes
    rnd = random.Random(seed + 1)
    for k in list(range(0, 12)) + [15, 16, 17, 18, 20, 33, 40]:
        for variant in range(3):
            # variant 0: names in ascending order; 1: shuffled names; 2: shuffled, and some local names
            # occur twice, once unprefixed and once with a prefix bound to another namespace
            names = ["a%02d" % i for i in range(k)]
            if variant:
                rnd.shuffle(names)
            attrs = [("", n, "v" + n) for n in names]
            decls = [("p%d" % i, "u%d" % i) for i in range(rnd.randint(1 if variant == 2 else 0, 3))]
            if variant == 2 and k:
                for n in rnd.sample(names, min(len(names), 1 + k // 8)):
                    attrs.insert(rnd.randint(0, len(attrs)), (rnd.choice(decls)[0], n, "w" + n))
            e = spec.Elem("", "r", attrs, decls, [])
            d = spec.Doc(e)
            txt, _r = spec.render(d, rnd)
            cs.append(Case(txt, "nc", True, meta={"gen": "attr-list", "n": len(attrs), "variant": variant, "expect_content": spec.expected_content(e, d)}))
    cs += d18_cases()
    # the attribute leak across an entity boundary (D9)
    cs.append(Case("<!DOCTYPE r [<!ENTITY p '<b a=\"1\"'>]><r>&p;<c/></r>", "nc", True, meta={"gen": "leak", "illformed": "start tag split by an entity boundary"}))
    cs += gens.g_ent_competing(flags="c")
    return cs


def c06_cases(tier, seed):
    q = tier == "quick"
    cs = gens.g_ns(2 if q else 3)
    if q:
        rnd = random.Random(seed)
        more = gens.g_ns(3, with_attr=False)
        cs += rnd.sample(more, min(len(more), 8000))
    cs += gens.g_cst(seed, 600 if q else 6000, flags="nc", renderings=1)
    cs += gens.g_cst(seed + 5, 300 if q else 3000, flags="nc", renderings=2, hoist=True)
    cs += gens.g_ns_attr(flags="nc", sample=6000 if q else None, seed=seed)
    cs += gens.g_prefix_out_of_scope(flags="c") + gens.g_ns_entity_sibling(flags="c") + [c for c in gens.g_reserved_uri_values(flags="c") if c.meta.get("wellformed")]
    # URIs supplied through references / entities
    d = "<!DOCTYPE r [<!ENTITY u 'urn:x'>]><r xmlns:p='&u;' xmlns='&#117;rn:y'><p:a/><b/></r>"
    cs.append(Case(d, "c", True, meta={"gen": "ns-uri-entity", "expect_content": [
        "Q 1 %s x72" % spec.hexs("urn:y"), "S 1 0 x70 %s" % spec.hexs("urn:x"), "S 1 1 - %s" % spec.hexs("urn:y"),
        "Q 2 %s x61" % spec.hexs("urn:x"), "S 2 0 x70 %s" % spec.hexs("urn:x"), "S 2 1 - %s" % spec.hexs("urn:y"),
        "Q 3 %s x62" % spec.hexs("urn:y"), "S 3 0 x70 %s" % spec.hexs("urn:x"), "S 3 1 - %s" % spec.hexs("urn:y")]}))
    # deep re-declaration chain
    depth = 30 if q else 200
    s = "".join("<e xmlns:p='u%d'>" % i for i in range(depth)) + "<p:x/>" + "</e>" * depth
    cs.append(Case(s, "c", True, meta={"gen": "ns-deep"}))
    cs += d18_cases()
    return cs


def c06_extra(tier, seed, harness_rel, harness_dbg):
    """scale families around the documented 2^16 limit of distinct namespaces (implementation only)"""
    fails, info = [], []
    ks = [65535, 65536] if tier == "quick" else [65534, 65535, 65536, 65537]
    work = os.path.join(BUILD, "work-C06")
    os.makedirs(work, exist_ok=True)
    for k in ks:
        for style in ("default", "prefixed"):
            if tier == "quick" and style == "prefixed" and k != 65536:
                continue
            if style == "default":
                doc = "<r>" + "".join("<e xmlns='u%d'/>" % i for i in range(k)) + "</r>"
            else:
                doc = "<r>" + "".join("<p:e xmlns:p='u%d'/>" % i for i in range(k)) + "</r>"
            c = Case(doc, "", True)
            path = os.path.join(work, "scale.cases")
            # only the last element's content is needed: dump everything but keep the tail
            rxlib.write_cases([Case(doc, "c", True)], path)
            t1 = time.time()
            p = subprocess.run([harness_rel, "dump", path], stdout=subprocess.PIPE, stderr=subprocess.DEVNULL, env=rxlib.ENV)
            out = p.stdout.decode().splitlines()
            dt = time.time() - t1
            head = out[0] if out else ""
            ok_expected = k <= 65535           # the xml namespace takes one of the 2^16 slots
            info.append({"family": "namespaces-%s-%d" % (style, k), "result": head, "seconds": round(dt, 1)})
            if ok_expected:
                if " R ok" not in head:
                    fails.append({"why": "%d distinct namespaces (%s) are within the documented limit but parsing fails: %s" % (k, style, " | ".join(out[:2])), "family": "namespaces-%s-%d" % (style, k)})
                else:
                    q = [l for l in out if " Q " in l]
                    want = "x" + ("u%d" % (k - 1)).encode().hex()
                    if not q or q[-1].split(" ")[3] != want:
                        fails.append({"why": "%d distinct namespaces (%s): the last element resolves to %s, expected %s" % (k, style, q[-1] if q else None, want), "family": "namespaces-%s-%d" % (style, k)})
            else:
                if " R ok" in head:
                    fails.append({"why": "%d distinct namespaces (%s) exceed the documented 2^16 limit but the document is accepted (mis-resolution)" % (k, style), "family": "namespaces-%s-%d" % (style, k)})
                elif not any("NamespacesLimitReached" in l for l in out[:3]):
                    fails.append({"why": "%d distinct namespaces (%s): expected NamespacesLimitReached, got %s" % (k, style, " | ".join(out[:2])), "family": "namespaces-%s-%d" % (style, k)})
    # ONE namespace declared on 2^16 + 1 elements: the limit counts distinct namespaces, not declarations
    for c in gens.g_same_ns_many(counts=(65537,) if tier == "quick" else (65536, 65537, 70000)):
        path = os.path.join(work, "scale.cases")
        rxlib.write_cases([Case(c.data, "", True)], path)
        t1 = time.time()
        p = subprocess.run([harness_rel, "dump", path], stdout=subprocess.PIPE, stderr=subprocess.DEVNULL, env=rxlib.ENV)
        out = p.stdout.decode().splitlines()
        fam = "same-namespace-%s-%d" % (c.meta["prefix"], c.meta["k"])
        info.append({"family": fam, "result": out[0] if out else "", "seconds": round(time.time() - t1, 1)})
        if not out or " R ok" not in out[0]:
            fails.append({"why": "one namespace (prefix %s) declared on %d elements is rejected: %s" % (c.meta["prefix"], c.meta["k"], " | ".join(out[:2])),
                          "family": fam, "input_note": "<r>" + "<%s:i xmlns:%s='http://www.w3.org/2001/XMLSchema-instance' %s:a='1'/>" % ((c.meta["prefix"],) * 3) + " x %d</r>" % c.meta["k"]})
    return fails, info


def c07_cases(tier, seed):
    q = tier == "quick"
    cs = gens.g_cst(seed, 1200 if q else 8000, flags="nc", renderings=4 if q else 6, hoist=True)
    cs += gens.g_tokens(2 if q else 3, flags="nc")
    # first declaration wins; parameter entities are not general entities (D13)
    cs.append(Case("<!DOCTYPE r [<!ENTITY x 'ONE'><!ENTITY x 'TWO'>]><r a='&x;'>&x;</r>", "nc", True,
                   meta={"gen": "first-wins", "expect_content": ["Q 1 - x72", "A 1 0 - x61 " + spec.hexs("ONE"), "X 2 " + spec.hexs("ONE")]}))
    cs.append(Case("<!DOCTYPE r [<!ENTITY % x 'PE'><!ENTITY x 'GE'>]><r>&x;</r>", "nc", True,
                   meta={"gen": "pe-not-ge", "expect_content": ["Q 1 - x72", "X 2 " + spec.hexs("GE")]}))
    cs += gens.g_ent_nested_elems(flags="nc")
    cs += gens.g_ns_entity_sibling(flags="nc") + [Case(c.data, "nc", True, meta={"gen": c.meta["gen"], "wellformed": c.meta["wellformed"]}) for c in gens.g_many_small_expansions()]
    cs += [Case(c.data, "nc", True, meta={"gen": c.meta["gen"], "wellformed": "a declared entity whose name resembles a predefined one"}) for c in gens.g_entity_names()]
    cs += [Case(c.data, "nc", True, meta={"gen": c.meta["gen"], "wellformed": "character / predefined references are not entity expansions"})
           for c in gens.g_ent_charrefs_free(flags="c") if c.meta.get("k") in (255, 256, 300) and c.meta.get("ref") in ("&amp;", "&#x41;")]
    # the equivalence also holds under a nodes_limit that the inline document just meets: text arriving in several
    # pieces (literal + entity value + CDATA ...) is ONE node, so the hoisted document needs no larger limit
    for decls, body, n, content in (
            ([("e", "bc")], "<r>a&e;</r>", 3, ["Q 1 - x72", "X 2 " + spec.hexs("abc")]),
            ([("e", "bc")], "<r>&e;a</r>", 3, ["Q 1 - x72", "X 2 " + spec.hexs("bca")]),
            ([("e", "b&f;"), ("f", "c")], "<r>a&e;d</r>", 3, ["Q 1 - x72", "X 2 " + spec.hexs("abcd")]),
            ([("e", "y")], "<r><a/>x&e;<![CDATA[z]]>&e;<b/></r>", 5, ["Q 1 - x72", "Q 2 - x61", "X 3 " + spec.hexs("xyzy"), "Q 4 - x62"]),
            ([("e", "<![CDATA[y]]>")], "<r>x&e;z</r>", 3, ["Q 1 - x72", "X 2 " + spec.hexs("xyz")]),
            ([("e", "<a>p&f;</a>q"), ("f", "r")], "<r>o&e;&f;</r>", 6, ["Q 1 - x72", "X 2 x6f", "Q 3 - x61", "X 4 " + spec.hexs("pr"), "X 5 " + spec.hexs("qr")])):
        for lim in (n, n + 1):
            cs.append(Case(gens.ent_doc(decls, body), "nc", True, lim, meta={"gen": "hoisted-under-exact-limit", "limit": lim, "expect_content": content}))
        cs.append(Case(gens.ent_doc(decls, body), "nc", True, n - 1, meta={"gen": "hoisted-under-exact-limit", "limit": n - 1, "expect": "NodesLimitReached"}))
    # several top-level references in ONE text run / ONE attribute value, each within the documented budget of
    # 255 nested references, together beyond it: the budget is per top-level reference, so this equals the inline text
    for n, k in ((128, 2), (200, 2), (255, 2), (100, 3), (10, 30), (3, 100)):
        dtd = "<!DOCTYPE r [<!ENTITY b 'x'><!ENTITY a '" + "&b;" * n + "'>]>"
        one = "x" * n
        cs.append(Case(dtd + "<r>" + "-".join(["&a;"] * k) + "</r>", "nc", True,
                       meta={"gen": "budget-per-reference-text", "n": n, "k": k,
                             "expect_content": ["Q 1 - x72", "X 2 " + spec.hexs("-".join([one] * k))]}))
        cs.append(Case(dtd + "<r v='" + " ".join(["&a;"] * k) + "'/>", "nc", True,
                       meta={"gen": "budget-per-reference-attr", "n": n, "k": k,
                             "expect_content": ["Q 1 - x72", "A 1 0 - x76 " + spec.hexs(" ".join([one] * k))]}))
        cs.append(Case(dtd + "<r v='&a;'>&a;<c w='&a;'/>&a;</r>", "nc", True,
                       meta={"gen": "budget-per-reference-mixed", "n": n,
                             "expect_content": ["Q 1 - x72", "A 1 0 - x76 " + spec.hexs(one), "X 2 " + spec.hexs(one),
                                                "Q 3 - x63", "A 3 0 - x77 " + spec.hexs(one), "X 4 " + spec.hexs(one)]}))
    cs += gens.g_ent_competing(flags="nc")
    return cs


ILL = []


def illformed_catalogue():
    """(document, constraint) pairs: one representative family per constraint of C08"""
    W = "<r><a>t</a><b k='v'/></r>"
    out = [
        ("<r><a>t</b></r>", "mismatched end tag"),
        ("<a/><!DOCTYPE a>", "DOCTYPE after the root element"),
        ("<a/>\n<!DOCTYPE a []>", "DOCTYPE after the root element"),
        ("<a></a><!--c--><!DOCTYPE a [<!ENTITY e 'v'>]>", "DOCTYPE after the root element"),
        ("<!DOCTYPE a><!DOCTYPE a><a/>", "two DOCTYPE declarations"),
        ("<!DOCTYPE a><a/><!DOCTYPE a>", "two DOCTYPE declarations"),
        ("<a><!DOCTYPE a></a>", "DOCTYPE inside the root element"),
        ("<!--c--><?p?><!DOCTYPE a><?xml version='1.0'?><a/>", "XML declaration after the DOCTYPE"),
        ("<r><a>t</a>", "missing end tag"),
        ("<r></r></r>", "stray end tag"),
        ("<r><p:a xmlns:p='u'></a></r>", "end tag prefix differs"),
        ("<!DOCTYPE r [<!ENTITY e '</r><r>'>]><r>&e;</r>", "tags pairing across an entity boundary"),
        ("<!DOCTYPE r [<!ENTITY e '<a>'>]><r>&e;</a></r>", "start tag in entity, end tag outside"),
        ("<!DOCTYPE r [<!ENTITY e '</a>'>]><r><a>&e;</r>", "end tag in entity"),
        ("<!DOCTYPE r [<!ENTITY e '<b/></r>'>]><r>&e;<x/>", "entity closes the root"),
        # D23-D26: the literals of an external identifier, the space before NDATA, the pseudo-attribute names
        ("<!DOCTYPE a SYSTEM '\x01'><a/>", "non-Char in a system literal"),
        ("<!DOCTYPE a PUBLIC 'x' 'y\x02'><a/>", "non-Char in the system literal after a public identifier"),
        ("<!DOCTYPE a [<!ENTITY e SYSTEM '\x0b'>]><a/>", "non-Char in the system literal of an external entity"),
        ("<!DOCTYPE a [<!ENTITY % e PUBLIC 'p' '\uffff'>]><a/>", "non-Char in the system literal of an external parameter entity"),
        ("<!DOCTYPE a PUBLIC '{}' 'x'><a/>", "character outside PubidChar in a public identifier"),
        ("<!DOCTYPE a PUBLIC 'a\"b' 'x'><a/>", "double quote in a public identifier"),
        ("<!DOCTYPE a PUBLIC '\u00e9' 'x'><a/>", "non-ASCII character in a public identifier"),
        ("<!DOCTYPE a [<!NOTATION n PUBLIC 'ok'><!ENTITY e PUBLIC '<' 'x'>]><a/>", "character outside PubidChar in the public identifier of an entity"),
        ("<!DOCTYPE a [<!ENTITY e SYSTEM 'x'NDATA n>]><a/>", "no white space before NDATA"),
        ("<!DOCTYPE a [<!ENTITY e PUBLIC 'p' \"x\"NDATA n>]><a/>", "no white space before NDATA"),
        ("<?xml versionx='1.0'?><a/>", "XML declaration with a pseudo-attribute name that only starts with 'version'"),
        ("<?xml version:y='1.0'?><a/>", "XML declaration with a qualified pseudo-attribute name"),
        ("<?xml version='1.0' encodingZ='u'?><a/>", "XML declaration with a pseudo-attribute name that only starts with 'encoding'"),
        ("<?xml version='1.0' standalone-x='yes'?><a/>", "XML declaration with a pseudo-attribute name that only starts with 'standalone'"),
        ("<?xml version='1.0' encoding='u' standalone.='yes'?><a/>", "XML declaration with a pseudo-attribute name that only starts with 'standalone'"),
        # D22: text inside a quoted literal of a skipped declaration is not markup -- an entity "declared" there is undeclared
        ("<!DOCTYPE a [<!NOTATION n SYSTEM '><!ENTITY e \"evil\"><!ELEMENT x '>]><a>&e;</a>", "undefined entity reference (its declaration is text inside a system literal)"),
        ("<!DOCTYPE a [<!ATTLIST a b CDATA \"><!ENTITY e 'evil'><!ELEMENT x \">]><a b='&e;'/>", "undefined entity reference in an attribute (its declaration is text inside a default value)"),
        ("<!DOCTYPE a [<!ELEMENT a (b')>]><a/>", "unterminated literal in a skipped declaration"),
        ("", "no root element"), ("<!--c-->", "no root element"), ("  ", "no root element"),
        ("<a/><b/>", "two root elements"), ("<a></a><b></b>", "two root elements"),
        ("<a/>t", "character data after the root"), ("t<a/>", "character data before the root"),
        ("<a/><![CDATA[x]]>", "CDATA outside the root"), ("<a/>&#65;", "reference outside the root"),
        ("<r a='1' a='2'/>", "duplicate attribute"),
        ("<r xmlns:p='u' xmlns:q='u' p:a='1' q:a='2'/>", "duplicate attribute by expanded name"),
        ("<r xmlns:p='u' xmlns:p='v'/>", "duplicate namespace declaration"),
        ("<r xmlns='u' xmlns='v'/>", "duplicate default namespace declaration"),
        ("<p:r/>", "undeclared element prefix"), ("<r p:a='1'/>", "undeclared attribute prefix"),
        ("<r xmlns:p='u'><q:a/></r>", "undeclared prefix in scope"),
        ("<xmlns:r/>", "xmlns as element prefix"), ("<r xmlns:xmlns='u'/>", "xmlns prefix declared"),
        ("<r xmlns:xml='u'/>", "xml prefix bound to another URI"),
        ("<r xmlns:p='http://www.w3.org/XML/1998/namespace'/>", "xml URI bound to another prefix"),
        ("<r xmlns='http://www.w3.org/XML/1998/namespace'/>", "xml URI as default namespace"),
        ("<r xmlns:p='http://www.w3.org/2000/xmlns/'/>", "xmlns URI declared"),
        ("<r xmlns='http://www.w3.org/2000/xmlns/'/>", "xmlns URI as default namespace"),
        # the reserved-URI and reserved-prefix rules apply to the NORMALISED value (after references)
        ("<r xmlns:p='http://www.w3.org/2000/xmlns&#x2F;'/>", "xmlns URI declared, spelled with a character reference"),
        ("<r xmlns='http://&#119;ww.w3.org/2000/xmlns/'/>", "xmlns URI as default namespace, spelled with a character reference"),
        ("<!DOCTYPE r [<!ENTITY ns 'http://www.w3.org/2000/xmlns/'>]><r xmlns:p='&ns;'/>", "xmlns URI declared through an entity"),
        ("<r xmlns:p='http://www.w3.org/XML/1998/namespac&#101;'/>", "xml URI bound to another prefix, spelled with a character reference"),
        ("<!DOCTYPE r [<!ENTITY ns 'http://www.w3.org/XML/1998/namespace'>]><r xmlns='&ns;'/>", "xml URI as default namespace through an entity"),
        ("<r xmlns:xml='http://www.w3.org/XML/1998/namespace&#32;'/>", "xml prefix bound to another URI (trailing referenced space)"),
        ("<!DOCTYPE r [<!ENTITY u 'u'>]><r xmlns:p='&u;' xmlns:q='u' p:a='1' q:a='2'/>", "duplicate attribute by expanded name, URI through an entity"),
        # first declaration of an entity binds: a later benign re-declaration does not repair an ill-forming first one
        ("<!DOCTYPE r [<!ENTITY e 'a<b'><!ENTITY e 'ab'>]><r a='&e;'/>", "'<' in an attribute value through the binding (first) declaration"),
        ("<!DOCTYPE r [<!ENTITY e '<b>'><!ENTITY e '<b/>'>]><r>&e;</b></r>", "start tag in the binding (first) declaration, end tag outside"),
        ("<!DOCTYPE r [<!ENTITY e '&nope;'><!ENTITY e 'fine'>]><r>&e;</r>", "undefined entity through the binding (first) declaration"),
        ("<!DOCTYPE r [<!ENTITY e '&e;'><!ENTITY e 'fine'>]><r>&e;</r>", "self reference in the binding (first) declaration"),
        ("<?a+b?><r/>", "no whitespace between a PI target and its content"), ("<r><?p+?></r>", "no whitespace between a PI target and its content"),
        ("<r/><?p'x'?>", "no whitespace between a PI target and its content"),
        ("<!DOCTYPE r [<?p=q?>]><r/>", "no whitespace between a PI target and its content (in the DTD)"),
        # ']]>' is refused in character data also when it arrives as the replacement text of an entity
        ("<!DOCTYPE a [<!ENTITY e ']]>'>]><a>&e;</a>", "']]>' in character data through an entity"),
        ("<!DOCTYPE a [<!ENTITY e 'x]]>y'><!ENTITY f '&e;'>]><a>&f;</a>", "']]>' in character data through a nested entity"),
        ("<!DOCTYPE a [<!ENTITY e 'x]]>y'>]><a><b>t&e;</b></a>", "']]>' in character data through an entity after literal text"),
        ("<r>&undefined;</r>", "undefined entity"), ("<r a='&undefined;'/>", "undefined entity in attribute"),
        ("<r>&#;</r>", "malformed character reference"), ("<r>&#x;</r>", "malformed character reference"),
        ("<r>&#xZ;</r>", "malformed character reference"), ("<r>& </r>", "bare ampersand"),
        ("<r>&amp</r>", "reference without semicolon"), ("<r a='&'/>", "bare ampersand in attribute"),
        ("<r>&#0;</r>", "reference to a non-Char"), ("<r>&#xFFFE;</r>", "reference to a non-Char"),
        ("<r>&#99999999999;</r>", "reference overflow"),
        ("<r a='<'/>", "'<' in attribute value"),
        ("<!DOCTYPE r [<!ENTITY p 'x<y'>]><r a='&p;'/>", "'<' in attribute value through an entity"),
        ("<!DOCTYPE r [<!ENTITY p '&#60;'>]><r a='&p;'/>", "'<' in attribute value through a reference in an entity"),
        ("<r><!-- a -- b --></r>", "'--' in comment"), ("<r><!-- a ---></r>", "comment ending in '-'"),
        ("<!-- -- --><r/>", "'--' in prolog comment"),
        ("<r>a]]>b</r>", "']]>' in text"), ("<r>a>b]]>c</r>", "']]>' in text after a '>'"), ("<r>>]]></r>", "']]>' in text after a '>'"),
        ("<r>1 > 0 and a[b[0]]> 1</r>", "']]>' in text after a '>'"),
        ("<!DOCTYPE r [<!ENTITY c 'x'><!ENTITY a '&c;<i/></b>'>]><r><b>&a;</r>", "end tag in an entity after a nested reference"),
        ("<!DOCTYPE r [<!ENTITY c '<j/>'><!ENTITY a '<i>&c;</i></b>'>]><r><b>&a;</r>", "end tag in an entity after a nested reference"),
        ("<r>\x01</r>", "non-Char in text"), ("<r a='\x02'/>", "non-Char in attribute"),
        ("<r><!--\x03--></r>", "non-Char in comment"), ("<r><?p \x04?></r>", "non-Char in PI"),
        ("<r><![CDATA[\x05]]></r>", "non-Char in CDATA"), ("<r>￾</r>", "U+FFFE in text"), ("<r>￿</r>", "U+FFFF in text"),
        ("<!DOCTYPE r [<!ENTITY p '\x01'>]><r a='&p;'/>", "non-Char through an entity into an attribute"),
        ("<1r/>", "name starts with a digit"), ("<r 1a='v'/>", "attribute name starts with a digit"),
        ("<-r/>", "name starts with '-'"), ("<r><?1p?></r>", "PI target starts with a digit"),
        ("<r><.a/></r>", "name starts with '.'"), ("<a:b:c xmlns:a='u'/>", "two colons in a name"),
        ("<r>&1e;</r>", "entity name starts with a digit"),
        ("<r/><?xml version='1.0'?>", "misplaced XML declaration"),
        (" <?xml version='1.0'?><r/>", "XML declaration after whitespace"),
        ("<?xml version='1.0'?><?xml version='1.0'?><r/>", "repeated XML declaration"),
        ("<r><?xml version='1.0'?></r>", "XML declaration inside content"),
        ("<r", "truncated start tag"), ("<r a", "truncated attribute"), ("<r a='v", "truncated attribute value"),
        ("<r><!--", "truncated comment"), ("<r><![CDATA[x", "truncated CDATA"), ("<r><?p", "truncated PI"),
        ("<r>&#6", "truncated reference"), ("<r>text", "truncated content"), ("<r></", "truncated end tag"), ("<r></r", "truncated end tag"),
        ("<r a=v/>", "unquoted attribute value"), ("<r a/>", "attribute without value"), ("<r a='1'b='2'/>", "no space between attributes"),
        ("<r><a/</r>", "bad empty tag"), ("< r/>", "space after '<'"), ("<r><![cdata[x]]></r>", "lower-case CDATA"),
    ]
    return out


def c08_cases(tier, seed):
    q = tier == "quick"
    cs = [Case(d, "", True, meta={"gen": "catalogue", "illformed": why}) for d, why in illformed_catalogue()]
    cs += [Case(c.data, "", True, meta=c.meta) for c in gens.g_long(flags="") if c.meta.get("illformed")]
    rnd = random.Random(seed)
    # catalogue edits embedded at every position of generated well-formed documents
    docs = gens.g_cst(seed, 60 if q else 400, flags="", renderings=1, doctype_free=True, non_ascii=False)
    inserts = [(">]]>", "']]>' in text after a '>'"), ("</zz>", "stray end tag"), ("<zz>", "unclosed element"), ("&undefined;", "undefined entity"), ("&#;", "malformed reference"),
               ("\x01", "non-Char"), ("]]>", "']]>' in text"), ("<!-- -- -->", "'--' in comment"), ("<1/>", "bad name"),
               ("<?xml version='1.0'?>", "misplaced declaration"), ("<a b='<'/>", "'<' in attribute value"), ("<a b='1' b='2'/>", "duplicate attribute"),
               ("<u:a/>", "undeclared prefix")]
    # the end of the root element is taken from the implementation's own range of the root
    # element (phase 1), so that truncation cuts are really "before the root end tag"
    docs = [c for c in docs if c.meta.get("expect_content") is not None]
    harness = os.path.join(rxlib.HARNESS, "target", "release", "rxharness")
    pre = rxlib.run_sharded(harness, ["dump"], [Case(c.data, "np", True) for c in docs], os.path.join(BUILD, "work-C08"), "pre")
    ends = {}
    for i, c in enumerate(docs):
        rows = [l.split(" ") for l in pre[i] if l.startswith("N ")]
        root_el = [r[1] for r in rows if r[2] == "E" and r[3] == "0"]
        for l in pre[i]:
            f = l.split(" ")
            if f[0] == "P" and root_el and f[1] == root_el[0]:
                ends[i] = len(c.data[:int(f[3])].decode("utf-8"))
    for di, c in enumerate(docs):
        s = c.data.decode()
        if di not in ends:
            continue
        cs.append(Case(s, "", True, meta={"gen": "cst-wellformed", "wellformed": "generated document"}))
        # content positions: directly after a '>' that ends a start tag / before '</'
        spots = [i for i in range(len(s)) if s.startswith("</", i)]
        for ins, why in inserts:
            for sp in (spots if not q else spots[:6]):
                # only inside element content that is not inside a comment/PI/CDATA: '</' outside those
                if in_raw_section(s, sp):
                    continue
                cs.append(Case(s[:sp] + ins + s[sp:], "", True, meta={"gen": "cst-illformed", "illformed": why}))
        # truncation before the end of the root element
        end = ends[di]
        for cut in range(1, end):
            cs.append(Case(s[:cut], "", True, meta={"gen": "truncation", "illformed": "truncated at %d of %d" % (cut, end)}))
    for s_ in ("<!DOCTYPE a [<!NOTATION n SYSTEM '>'>]><a/>", "<!DOCTYPE a [<!ATTLIST a b CDATA \">\">]><a/>",
              "<!DOCTYPE a [<!NOTATION n SYSTEM \"a>'b\"><!ATTLIST a c CDATA '>\">'><!ENTITY e 'v'>]><a>&e;</a>"):
        cs.append(Case(s_, "", True, meta={"gen": "d22-wellformed", "wellformed": "'>' inside a quoted literal of a skipped declaration"}))
    for s_ in ("<!DOCTYPE a PUBLIC \"-//W3C//DTD X 1.0//EN\" 'x.dtd'><a/>", "<!DOCTYPE a PUBLIC \"o'r (1+2),./:=?;!*#@$_%\" 'x'><a/>",
               "<!DOCTYPE a PUBLIC 'a\r\n b' \"s'\u00e9\"><a/>", "<!DOCTYPE a [<!ENTITY e SYSTEM 'x' NDATA n><!ENTITY f PUBLIC '' ''\n\tNDATA\tn>]><a/>",
               "<?xml version='1.0' encoding='utf-8' standalone='yes'?><a/>", "<!DOCTYPE a SYSTEM '\t\u0085\u00a0'><a/>"):
        cs.append(Case(s_, "", True, meta={"gen": "d23-wellformed", "wellformed": "external identifiers, NDATA and the XML declaration written as the grammar requires"}))
    cs += gens.g_meta(3 if q else 4, embed=True)
    cs += gens.g_tokens(3 if q else 4, flags="")
    cs += gens.g_nonchar()
    cs += [Case(c.data, "", True, meta=c.meta) for c in gens.g_dup_attr_wide() + gens.g_prefix_out_of_scope()]
    cs += char_cases(tier, seed)
    return cs


def in_raw_section(s, pos):
    """is position pos inside a comment, PI or CDATA section"""
    for a, b2 in (("<!--", "-->"), ("<?", "?>"), ("<![CDATA[", "]]>")):
        i = s.rfind(a, 0, pos)
        if i >= 0:
            j = s.find(b2, i + len(a))
            if j < 0 or j + len(b2) > pos:
                return True
    return False


def root_end(s):
    """offset just after the root element's end tag: generated documents end with the root
    element followed only by comments / PIs / whitespace"""
    # scan backwards over trailing misc
    i = len(s)
    while True:
        t = s[:i].rstrip(" \t\r\n")
        if t.endswith("-->"):
            i = t.rfind("<!--")
        elif t.endswith("?>"):
            i = t.rfind("<?")
        else:
            return len(t)


# XML 1.0 5th edition productions [2] Char, [4] NameStartChar, [4a] NameChar
CHAR_RANGES = [(0x9, 0xA), (0xD, 0xD), (0x20, 0xD7FF), (0xE000, 0xFFFD), (0x10000, 0x10FFFF)]
NAME_START_RANGES = [(0x3A, 0x3A), (0x41, 0x5A), (0x5F, 0x5F), (0x61, 0x7A), (0xC0, 0xD6), (0xD8, 0xF6), (0xF8, 0x2FF), (0x370, 0x37D),
                     (0x37F, 0x1FFF), (0x200C, 0x200D), (0x2070, 0x218F), (0x2C00, 0x2FEF), (0x3001, 0xD7FF), (0xF900, 0xFDCF),
                     (0xFDF0, 0xFFFD), (0x10000, 0xEFFFF)]
NAME_RANGES = NAME_START_RANGES + [(0x2D, 0x2E), (0x30, 0x39), (0xB7, 0xB7), (0x300, 0x36F), (0x203F, 0x2040)]


def in_r(c, rs):
    return any(a <= c <= b2 for a, b2 in rs)


def char_cases(tier, seed):
    q = tier == "quick"
    pts = set()
    for rs in (CHAR_RANGES, NAME_START_RANGES, NAME_RANGES):
        for a, b2 in rs:
            for x in (a - 1, a, a + 1, b2 - 1, b2, b2 + 1):
                pts.add(x)
    pts |= set(range(0, 0x300))
    rnd = random.Random(seed)
    if q:
        pts |= set(rnd.randrange(0, 0x110000) for _ in range(3000))
    else:
        pts |= set(range(0, 0x110000, 7)) | set(rnd.randrange(0, 0x110000) for _ in range(30000))
    cs = []
    for c in sorted(pts):
        if c < 0 or c > 0x10FFFF or 0xD800 <= c <= 0xDFFF:
            continue
        ch = chr(c)
        if ch in "<&":
            continue
        ok_char = in_r(c, CHAR_RANGES)
        m1 = {"gen": "char-text", "cp": c}
        m1["wellformed" if ok_char else "illformed"] = "U+%04X in text" % c
        cs.append(Case("<r>" + ch + "</r>", "", True, meta=m1))
        if c != 0x3A:       # ':' splits a qualified name
            ns = in_r(c, NAME_START_RANGES)
            m2 = {"gen": "char-name-start", "cp": c}
            m2["wellformed" if ns else "illformed"] = "U+%04X as first character of a name" % c
            cs.append(Case("<" + ch + "/>", "", True, meta=m2))
            nc = in_r(c, NAME_RANGES)
            if ch not in " \t\r\n/>=":
                m3 = {"gen": "char-name", "cp": c}
                m3["wellformed" if nc else "illformed"] = "U+%04X inside a name" % c
                cs.append(Case("<a" + ch + "/>", "", True, meta=m3))
    return cs


def c09_cases(tier, seed):
    q = tier == "quick"
    fs = list(range(1, 301, 7)) + [2, 3, 15, 16, 17, 254, 255, 256, 257] if q else list(range(1, 301))
    cs = gens.g_ent_cycles(32, flags="c")
    cs += gens.g_ent_fanout(sorted(set(fs)), list(range(1, 13)), flags="c")
    cs += gens.g_ent_fanout_attr_leaf([1, 2, 3, 4, 6, 10, 15, 16], [1, 2, 3, 4], flags="c")
    cs += gens.g_ent_chains(14, flags="c")
    cs += gens.g_ent_empty(flags="c") + gens.g_ent_charrefs_free(flags="c")
    cs += gens.g_ent_many_decls(flags="c", dists=(256, 512) if q else (256, 512, 65536)) + gens.g_many_small_expansions(flags="c") + gens.g_ent_ladder(flags="c")
    cs += gens.g_ent_fanout_sep([2, 3, 4, 8, 15], [1, 2, 3, 6] if q else [1, 2, 3, 4, 6, 8], flags="c")
    cs += gens.g_ent_toplevel(1000 if q else 100000, flags="c")
    # references at depth zero are not limited: more than 2^16 of them in one text / one attribute value
    cs += gens.g_ent_toplevel(65540, flags="c")
    cs += gens.g_ent_random(seed, 1500 if q else 15000, flags="c")
    return cs


def api_docs(tier, seed, flags):
    q = tier == "quick"
    cs = gens.g_tokens(2 if q else 3, flags=flags)
    cs += gens.g_cst(seed, 250 if q else 2500, flags=flags, renderings=1, hoist=True, size=10)
    cs += gens.g_fixtures(flags=flags)
    cs += gens.g_long(flags=flags, counts=[2, 3, 16, 17, 33])
    cs += gens.g_api_shapes(flags=flags)
    if "l" in flags:
        cs += gens.g_same_uri(flags)
    return cs


def c10_cases(tier, seed):
    q = tier == "quick"
    cs = api_docs(tier, seed, "ncptadlog")
    cs += [Case("<e>é</e>", "ncptadlog", True, meta={"gen": "nonascii"}),
           Case("<e>\n中\n😀é\n</e>", "ncptadlog", True, meta={"gen": "nonascii"}),
           Case("<e>р–À…😀</e>", "ncptadlog", True, meta={"gen": "continuation-bytes"}),
           Case("<n:e xmlns:n='a&#10;b'/>", "ncptadlog", True, meta={"gen": "lf-in-uri"}),
           Case("<e xmlns='a&#10;b' xmlns:n='c&#10;&#10;d' n:x='1'><n:f/></e>", "ncptadlog", True, meta={"gen": "lf-in-uri"})]
    cs += gens.g_long_nonascii(flags="ncptalg", totals=(127, 128, 255, 256, 511, 512, 513))
    # (text_pos_at for every offset is quadratic: larger sizes without the position sweep)
    cs += gens.g_long_nonascii(flags="ncpalg", totals=(1024, 4096))
    if not q:
        # the largest sizes without the lookup / Debug batteries (quadratic in the model's driver: a shard of 65 536-character
        # documents did not finish within the driver's 20-minute limit)
        big = gens.g_long_nonascii(flags="ncp", totals=(65535, 65536))
        for c in big:
            c.meta = dict(c.meta or {}, impl_only=True)      # the list-based model needs minutes for each of these; the implementation is run on all of them
        cs += big
    # the documented saturation limits of the attribute position fields, with non-ASCII names
    cs += [c for c in gens.g_long_nonascii(flags="pa", totals=(65535, 65536)) if c.meta["where"] in ("attr-name", "tag-name")]
    return cs


def c13_cases(tier, seed):
    q = tier == "quick"
    cs = gens.g_cst(seed, 1200 if q else 10000, flags="ncpb", renderings=2, hoist=False, doctype_free=True)
    cs += gens.g_cst(seed + 7, 600 if q else 5000, flags="ncpb", renderings=2, hoist=True)
    cs += gens.g_fixtures(flags="ncpb")
    cs += gens.g_tokens(2 if q else 3, flags="ncpb")
    cs += gens.g_ent_random(seed, 300 if q else 3000, flags="ncpb")
    # the documented saturation limits of the attribute sub-ranges
    cs.append(Case("<r " + "a" * 70000 + "='v'/>", "p", True, meta={"gen": "qname-sat"}))
    # names with a leading colon (a documented leniency: accepted); the sub-ranges must still be exact
    for d in ("<e :a='1'/>", "<e :k\u00f6  =  \"v\" x='2'/>", "<e a='0' :b = 'x' c:d='y' xmlns:c='u'/>", "<:e :a='1'></:e>"):
        cs.append(Case(d, "ncpb", True, meta={"gen": "leading-colon"}))
    # just below the documented limits: the sub-ranges must still be exact
    for nlen, pad in ((65533, 0), (65534, 0), (65400, 100), (65000, 126), (65279, 127)):
        cs.append(Case("<r x='1' " + "a" * nlen + " " * pad + "=" + " " * pad + "'value'/>", "p", True, meta={"gen": "qname-below-sat", "name_len": nlen, "pad": pad}))
    cs.append(Case("<r a" + " " * 300 + "='v'/>", "p", True, meta={"gen": "eq-sat"}))
    cs += gens.g_long(flags="ncpb") + gens.g_long_prefix_then_ref(flags="ncpb")
    rnd = random.Random(seed + 3)
    more = gens.g_pieces_text(3, positions=(0, 1))
    cs += [Case(c.data, "ncpb", True, meta=c.meta) for c in rnd.sample(more, min(len(more), 3000 if q else 20000))]
    return cs


def c13_relation(cases, impl):
    """shift relation: k bytes of prolog whitespace shift every range by k"""
    out = []
    for gi, (base, shifted, k) in enumerate(SHIFT_GROUPS.get("C13", [])):
        a, b2 = impl[base], impl[shifted]
        if rxlib.result_class(a) != "ok":
            continue
        if rxlib.result_class(b2) != "ok":
            out.append(([base, shifted], "document accepted, but rejected after inserting %d whitespace bytes in front" % k))
            continue
        pa = [l.split(" ") for l in a if l.startswith("P ") or l.startswith("PA ")]
        pb = [l.split(" ") for l in b2 if l.startswith("P ") or l.startswith("PA ")]
        for x, y in zip(pa, pb):
            if x[0] == "P":
                if x[1] == "0":
                    ok = int(y[2]) == 0 and int(y[3]) == int(x[3]) + k
                else:
                    ok = [int(v) + k for v in x[2:4]] == [int(v) for v in y[2:4]]
            else:
                ok = [int(v) + k for v in x[3:9]] == [int(v) for v in y[3:9]]
            if not ok:
                out.append(([base, shifted], "range %s becomes %s after a shift by %d" % (" ".join(x), " ".join(y), k)))
                break
    return out


SHIFT_GROUPS = {}


def c13_cases_with_shift(tier, seed):
    cs = c13_cases(tier, seed)
    groups = []
    rnd = random.Random(seed)
    base_idx = [i for i, c in enumerate(cs) if c.meta and c.meta.get("gen") == "cst" and not c.data.startswith(b"<?xml") and not c.data.startswith(b"\xef\xbb\xbf")]
    for i in rnd.sample(base_idx, min(len(base_idx), 300 if tier == "quick" else 3000)):
        k = rnd.randint(1, 5)
        ws = "".join(rnd.choice(" \t\n") for _ in range(k))
        cs.append(Case(ws.encode() + cs[i].data, "ncpb", True, meta={"gen": "shift", "of": i, "k": k}))
        groups.append((i, len(cs) - 1, k))
    SHIFT_GROUPS["C13"] = groups
    return cs


def c14_cases(tier, seed):
    q = tier == "quick"
    cs = gens.g_meta(3 if q else 4, embed=True, flags="t")
    cs += [Case(c.data, "t", c.dtd, c.limit, c.meta) for c in gens.g_mutations(seed, 2500 if q else 25000)]
    cs += gens.g_tokens(2 if q else 3, flags="t")
    cs += [Case(d, "t", True, meta={"gen": "catalogue"}) for d, _ in illformed_catalogue()]
    cs += gens.g_fixtures(flags="t")
    cs += gens.g_ent_cycles(6, flags="t") + gens.g_ent_random(seed, 400 if q else 4000, flags="t")
    cs += [Case("<e>é</e>", "t", True), Case("a\r\nb\n\n中文\n", "t", True), Case("<r>\n  <a>é\n</b>", "t", True)]
    cs += [Case(c.data, "t", True, meta=c.meta) for c in gens.g_nonchar()]
    cs += gens.g_cdata_tricky_nonchar(flags="t")
    cs += [Case(c.data, "t", True, meta=c.meta) for c in gens.g_entity_value_prefixes()]
    # text_pos_at inside characters whose continuation bytes are 0x80 / 0xBF
    cs += [Case("<e>р–À…😀\u07ff\uffff</e>".replace("\uffff", ""), "t", True, meta={"gen": "continuation-bytes"})]
    # something the internal subset cannot contain, behind various prefixes: the error is reported AT that construct
    for bad in ("%pe;", "<![INCLUDE[ x ]]>", "text", "<!FOO x>", "<r/>", "]]>", "&e;", "<!ENTITYx y 'z'>"):
        for pre in ("", "\n", "<!ENTITY a 'b'>", "<!ENTITY a 'b'>\n  ", "<!-- c -->\n<?p q?>\n\t", "<!ELEMENT r ANY>\n\n", "<!ENTITY % pe 'x'> \u00e9".replace(" \u00e9", "") + "\n"):
            head = "<?xml version='1.0'?>\n<!DOCTYPE r [" + pre
            doc = head + bad + "\n]><r/>"
            cs.append(Case(doc, "t", True, meta={"gen": "dtd-bad-construct", "expect_err_at": len(head.encode())}))
    # whitespace insertion ahead of the offending construct: groups (base, shifted, kind, k)
    groups = []
    rnd = random.Random(seed)
    errs = [c for c in cs if c.meta and c.meta.get("gen") in ("catalogue", "mutation", "tokens", "tokens-wrapped")]
    for c in rnd.sample(errs, min(len(errs), 400 if q else 4000)):
        s = c.data
        if s.startswith(b"<?xml") or s.startswith(b"\xef\xbb\xbf"):
            continue
        k = rnd.randint(1, 5)
        kind = rnd.choice(["lf", "sp"])
        ws = (b"\n" if kind == "lf" else b" ") * k
        bi = len(cs)
        cs.append(Case(s, "t", True, meta={"gen": "shift-base"}))
        cs.append(Case(ws + s, "t", True, meta={"gen": "shift-" + kind, "k": k}))
        groups.append((bi, bi + 1, kind, k))
    SHIFT_GROUPS["C14"] = groups
    # whitespace at EVERY prolog point (after the XML declaration, between comments / PIs, inside the internal subset
    # between its declarations, after the DOCTYPE) of documents whose error lies in the body, in an entity value
    # declared before or after the point, or in the subset itself: the reported place must move with the text
    pgroups = []
    bodies = [
        (["<!ENTITY a 'x&b;'>", "<!ENTITY b 'yy&a;'>"], "<t>&a;</t>"),                                   # loop met in text
        (["<!ENTITY a 'x&b;'>", "<!ENTITY b 'yy&a;'>"], "<t v='&a;'/>"),                                 # loop met in an attribute
        (["<!ENTITY cmp 'a &amp; b < c'>", "<!ENTITY outer '[&cmp;]'>"], "<t v='&outer;'/>"),            # '<' reaches an attribute
        (["<!ENTITY e '<b>t</c>'>", "<!ENTITY f 'u'>"], "<t>&f;&e;</t>"),                                 # mismatched tag inside a value
        (["<!ENTITY e 'v'>", "<!ENTITY f '&nope;'>"], "<t>&e;&f;</t>"),                                   # unknown reference inside a value
        (["<!ENTITY e 'v'>", "<!ENTITY f 'w'>"], "<t a='1' b='&e;' a='2'>&f;</t>"),                       # duplicate attribute in the body
        (["<!ENTITY e 'v'>", "<!ENTITY f 'w'>"], "<t>&e;\u0001</t>"),                                    # non-Char in the body
        (["<!ENTITY e 'v'>", "<!FOO x>"], "<t/>"),                                                       # unknown declaration in the subset
        (["<!ENTITY e 'v'>", "<!ENTITY f 'w'>"], "<p:t/>"),                                              # unknown prefix
    ]
    for decls, body in bodies:
        parts = ["<?xml version='1.0'?>", "<!--c\u00e9-->", "<?p q?>", "<!DOCTYPE t [", decls[0], "<!--s-->", decls[1], "<?q r?>", "]>", "<!--d-->", body]
        base = "".join(parts)
        bi = len(cs)
        cs.append(Case(base, "t", True, meta={"gen": "prolog-point-base"}))
        for cut in range(1, len(parts)):
            P = len("".join(parts[:cut]).encode())
            for ws in (" ", "\n", "   ", "\n\n", " \n ", "\t\n\n\n\n"):
                pgroups.append((bi, len(cs), P, len(ws.encode())))
                cs.append(Case("".join(parts[:cut]) + ws + "".join(parts[cut:]), "t", True, meta={"gen": "prolog-point", "cut": cut, "ws": ws}))
    SHIFT_GROUPS["C14-points"] = pgroups
    return cs


def _pos_to_offset(data, row, col):
    """byte offset of the 1-based (row, col) in data: rows by LF, columns in characters"""
    lines = data.split(b"\n")
    if row < 1 or row > len(lines):
        return None
    off = sum(len(l) + 1 for l in lines[:row - 1])
    line = lines[row - 1].decode("utf-8", "replace")
    if col < 1 or col > len(line) + 1:
        return None
    return off + len(line[:col - 1].encode("utf-8"))


def _offset_to_pos(data, off):
    before = data[:off]
    row = before.count(b"\n") + 1
    line_start = before.rfind(b"\n") + 1
    return row, len(before[line_start:].decode("utf-8", "replace")) + 1


def c14_relation(cases, impl):
    out = []
    for base, shifted, kind, k in SHIFT_GROUPS.get("C14", []):
        a, b2 = impl[base], impl[shifted]
        ea = [l for l in a if l.startswith("E ")]
        eb = [l for l in b2 if l.startswith("E ")]
        if not ea:
            continue
        fa = ea[0].split(" ")
        if fa[1] in ("NoRootNode", "UnclosedRootNode", "DtdDetected", "NodesLimitReached", "AttributesLimitReached",
                     "NamespacesLimitReached", "UnexpectedEndOfStream"):
            want = fa
        else:
            row, col = int(fa[2]), int(fa[3])
            if kind == "lf":
                want = fa[:2] + [str(row + k), str(col)] + fa[4:]
            else:
                want = fa[:2] + [str(row), str(col + k if row == 1 else col)] + fa[4:]
        if not eb or eb[0].split(" ") != want:
            # leading whitespace can change what the prolog means (e.g. nothing else): accept only identical variants
            if eb and eb[0].split(" ")[1] != fa[1]:
                continue
            out.append(([base, shifted], "error %s becomes %s after inserting %d %s" % (ea[0], eb[0] if eb else "Ok", k, "line breaks" if kind == "lf" else "spaces")))
    for base, shifted, P, k in SHIFT_GROUPS.get("C14-points", []):
        a, b2 = impl[base], impl[shifted]
        ea = [l for l in a if l.startswith("E ")]
        eb = [l for l in b2 if l.startswith("E ")]
        if not ea:
            continue
        fa = ea[0].split(" ")
        if not eb:
            out.append(([base, shifted], "error %s disappears after inserting whitespace at prolog offset %d" % (ea[0], P)))
            continue
        fb = eb[0].split(" ")
        off = _pos_to_offset(cases[base].data, int(fa[2]), int(fa[3]))
        if off is None:
            out.append(([base], "error position %s:%s is not a position of the input" % (fa[2], fa[3])))
            continue
        off2 = off + k if off >= P else off
        want = fa[:2] + [str(x) for x in _offset_to_pos(cases[shifted].data, off2)] + fa[4:]
        if fb != want:
            out.append(([base, shifted], "error %s becomes %s (expected %s) after inserting %d whitespace bytes at prolog offset %d" % (ea[0], eb[0], " ".join(want), k, P)))
    return out


LIMIT_GROUPS = {}


def c15_cases(tier, seed):
    q = tier == "quick"
    base = gens.g_cst(seed, 150 if q else 1500, flags="", renderings=1, hoist=True, size=8)
    base += gens.g_tokens(2, flags="")
    base += gens.g_ent_fanout([1, 2, 3, 5], [1, 2, 3]) + gens.g_ent_random(seed, 100 if q else 1000)
    # documents whose UNLIMITED parse fails on the expansion limits (an error must persist under every limit), and their accepted neighbours
    base += gens.g_ent_fanout([16, 255, 256], [1, 2]) + gens.g_ent_fanout([2], [9, 10, 11]) + gens.g_ent_cycles(3)
    base.append(Case(gens.ent_doc([("a", "<i/>"), ("b", "&a;" * 256)], "<r>&b;</r>"), "", True, meta={"gen": "ent-256-elements"}))
    base.append(Case(gens.ent_doc([("a", "<i/>"), ("b", "&a;" * 255)], "<r>&b;</r>"), "", True, meta={"gen": "ent-255-elements"}))
    base += gens.g_mutations(seed, 150 if q else 1500)
    # entity expansion multiplying element / comment / text nodes
    for k in (1, 2, 3, 8, 20):
        for val in ("<a/><a/><a/><a/>", "<a>t</a>", "<!--c-->x<?p?>", "<a><b/></a>t"):
            base.append(Case(gens.ent_doc([("e", val)], "<r>" + "&e;" * k + "</r>"), "", True, meta={"gen": "ent-multiply", "k": k}))
    base.append(Case(gens.ent_doc([("e", "<a/><a/>"), ("f", "&e;&e;&e;"), ("g", "&f;&f;&f;")], "<r>&g;&g;</r>"), "", True, meta={"gen": "ent-multiply-nested"}))
    # entity values whose markup characters outnumber the nodes they yield ('<' inside CDATA / comments / PIs, CDATA merging into
    # preceding text): a limit equal to the real node count must still be accepted
    for val in ("<![CDATA[y]]>", "<?pi <<<< ?>", "<!-- <<<< -->", "<![CDATA[<<<<]]>", "<a b='1'/><![CDATA[<<]]>", "t<![CDATA[<]]><!--<-->",
                "<!-- <b/><c/><d>old</d> -->", "<![CDATA[<x><y/></x>]]>", "<?p <q><r/> ?>"):
        for body in ("<r>x&e;</r>", "<r>&e;</r>", "<r><a/>x&e;&e;</r>", "<r><a>&e;</a>&e;</r>"):
            base.append(Case(gens.ent_doc([("e", val)], body), "", True, meta={"gen": "ent-lt-overcount"}))
    for s in ("<a>x<![CDATA[y]]></a>", "<a><b/>x<![CDATA[y]]>z</a>", "<a>x<!--c-->y</a>",
              # markup-looking text inside comments / CDATA / PIs of a DOCTYPE-free document: not nodes
              "<a><!-- <b/><c/><d>old</d> --></a>", "<a><![CDATA[<x><y/></x>]]><?p <q> ?></a>", "<!-- <r> --><a/><!-- <s/><t/> -->"):
        base.append(Case(s, "", True, meta={"gen": "text-merge"}))
    base.append(Case(gens.ent_doc([("e", "y")], "<a>x&e;z</a>"), "", True, meta={"gen": "text-merge"}))
    rnd = random.Random(seed)
    # phase 1: the unlimited parses give N (the quantifier's limits are relative to N)
    pre = []
    for c in base:
        for dtd in (True, False):
            pre.append(Case(c.data, "n", dtd, U32MAX, meta=c.meta))
    harness = os.path.join(rxlib.HARNESS, "target", "release", "rxharness")
    res = rxlib.run_sharded(harness, ["dump"], pre, os.path.join(BUILD, "work-C15"), "pre")
    cs = []
    groups = []
    for i, c in enumerate(pre):
        r = res[i]
        n = int(r[0].split(" ")[2]) if rxlib.result_class(r) == "ok" else c.data.count(b"<") + 2
        ls = set([0, 1, 2, 3, max(0, n - 2), max(0, n - 1), n, n + 1, n + 2, (n + 1) // 2, U32MAX - 1])
        ls |= set(rnd.randint(0, 2 * n + 2) for _ in range(4))
        ls = sorted(ls)
        gi = len(cs)
        cs.append(c)
        for l in ls:
            cs.append(Case(c.data, "n", c.dtd, l, meta=c.meta))
        groups.append((gi, len(ls)))
    LIMIT_GROUPS["C15"] = groups
    return cs


def c15_relation(cases, impl):
    out = []
    for gi, k in LIMIT_GROUPS.get("C15", []):
        base = impl[gi]
        bc = rxlib.result_class(base)
        n = int(base[0].split(" ")[2]) if bc == "ok" else None
        for j in range(gi + 1, gi + 1 + k):
            L = cases[j].limit
            r = impl[j]
            rc = rxlib.result_class(r)
            if rc == "ok" and int(r[0].split(" ")[2]) > L:
                out.append(([gi, j], "limit %d but %s nodes" % (L, r[0].split(" ")[2])))
            if bc == "ok":
                if L >= n and r != base:
                    out.append(([gi, j], "limit %d >= N=%d gives a different result: %s" % (L, n, " ".join(r[:2]))))
                if L < n and not (rc == "err" and any(l.startswith("E NodesLimitReached") for l in r)):
                    out.append(([gi, j], "limit %d < N=%d does not give NodesLimitReached: %s" % (L, n, " ".join(r[:2]))))
            elif bc == "err" and rc != "err":
                out.append(([gi, j], "unlimited parse fails but limit %d succeeds" % L))
    return out


def c16_cases(tier, seed):
    q = tier == "quick"
    base = gens.g_cst(seed, 500 if q else 5000, flags="", renderings=2, hoist=True)
    base += gens.g_meta(3 if q else 4, embed=False)
    base += gens.g_fixtures() + gens.g_mutations(seed, 800 if q else 8000)
    extra = ["<!DOCTYPE r><r/>", "<!DOCTYPE r []><r/>", "<?xml version='1.0'?><!DOCTYPE r><r/>", "<!--c--><!DOCTYPE r><r/>",
             "<r><!-- <!DOCTYPE x> --></r>", "<r><![CDATA[<!DOCTYPE x>]]></r>", "<r a='<!DOCTYPE'/>", "<r><?p <!DOCTYPE x>?></r>",
             "<r>&lt;!DOCTYPE</r>", "<!DOCTYPE r SYSTEM 'x'><r/>", " <!DOCTYPE r><r/>", "<!DOCTYPE\nr><r/>", "<!DOCTYPE\tr [<!ENTITY e 'xxxx'>]><r a='&e;&e;'>&e;&e;</r>", "<!DOCTYPE\r\nr><r/>",
             "<!--c--> <?p?>\n<!DOCTYPE r [<!ENTITY e 'xxxxxxxx'>]><r>&e;&e;&e;</r>", "\ufeff<?xml version='1.0'?><!--c--><!DOCTYPE r><r/>", "<!DOCTYPE r [<!ENTITY e 'v'>]><r>&e;</r>", "<!DOCTYPE", "<!DOCTYPE>",
             # a DOCTYPE where none may stand: an error under both option values (the SAME error where the property says so)
             "<a/><!DOCTYPE a>", "<a/>\n<!DOCTYPE a []>", "<a></a><!--c--><!DOCTYPE a [<!ENTITY e 'v'>]>", "<!DOCTYPE a><!DOCTYPE a><a/>",
             "<!DOCTYPE a><a/><!DOCTYPE a>", "<a><!DOCTYPE a></a>", "<a/><?p?> <!DOCTYPE a>"]
    base += [Case(s, "", True, meta={"gen": "doctype-forms"}) for s in extra]
    # DOCTYPE-free text with references / CR next to non-ASCII characters: the same text under both option values
    base += [Case(s, "", True, meta={"gen": "no-doctype-text"}) for s in
             ("<a>Müller &amp; Söhne</a>", "<a>&#65;éééééééééééé</a>", "<a>é\rü\r\n中</a>", "<a k='é&amp;ü\r'>ü&#x20AC;</a>", "<a>😀&lt;😀\r</a>", "<a><![CDATA[é\r]]>&#233;</a>")]
    # errors of DOCTYPE-free documents must be the same error at the same position under both option values
    base += [Case(s, "", True, meta={"gen": "no-doctype-errors"}) for s in
             ("<a>&x;</a>", "<a b='&x;'/>", "<a>t&x;u</a>", "<a>\n\n  &undefined;</a>", "<a>&#;</a>", "<a><b>&x;</b></a>", "<a>&amp;&x;</a>", "<a b='1' b='2'/>", "<a></b>")]
    cs = []
    for c in base:
        cs.append(Case(c.data, "ncp", True, U32MAX, meta=c.meta))
        cs.append(Case(c.data, "ncp", False, U32MAX, meta=c.meta))
        cs.append(Case(c.data, "ncpD", False, U32MAX, meta=c.meta))      # Document::parse
    # allow_dtd must not interact with nodes_limit either: small documents (with text nodes, so that the node count is
    # not the number of '<') under a few small limits, both option values
    rnd = random.Random(seed + 9)
    small = [c for c in base if len(c.data) <= 60 and b"<!DOCTYPE" not in c.data]
    small = rnd.sample(small, min(len(small), 300 if q else 3000)) + [Case(x, "", True, meta={"gen": "limit-x-dtd"}) for x in ("<a>t<b/>t<b/>t</a>", "<a>x<b>y</b>z</a>", "<a><!--c-->t<?p?>u</a>")]
    for c in small:
        for L in (2, 3, 4, 5, 6, 8):
            cs.append(Case(c.data, "ncp", True, L, meta=c.meta))
            cs.append(Case(c.data, "ncp", False, L, meta=c.meta))
            cs.append(Case(c.data, "ncp", False, L, meta=c.meta))
    return cs


def prolog_has_doctype(data):
    """does the prolog (BOM, XML declaration, whitespace, comments, PIs) lead to a '<!DOCTYPE'"""
    s = data
    if s.startswith(b"\xef\xbb\xbf"):
        s = s[3:]
    if s.startswith(b"<?xml") and len(s) > 5 and s[5:6] in b" \t\r\n":
        j = s.find(b"?>")
        if j < 0:
            return False
        s = s[j + 2:]
    while True:
        s = s.lstrip(b" \t\r\n")
        if s.startswith(b"<!--"):
            j = s.find(b"-->", 4)
            if j < 0:
                return False
            s = s[j + 3:]
        elif s.startswith(b"<?"):
            j = s.find(b"?>", 2)
            if j < 0:
                return False
            s = s[j + 2:]
        else:
            return s.startswith(b"<!DOCTYPE")


def c16_relation(cases, impl):
    out = []
    for i in range(0, len(cases), 3):
        on, off_, dflt = impl[i], impl[i + 1], impl[i + 2]
        if off_ != dflt:
            out.append(([i + 1, i + 2], "Document::parse differs from parse_with_options(default)"))
        is_dtd_err = rxlib.result_class(off_) == "err" and any(l.startswith("E DtdDetected") for l in off_)
        if not is_dtd_err and off_ != on:
            out.append(([i, i + 1], "allow_dtd=false gives neither DtdDetected nor the allow_dtd=true result"))
        if prolog_has_doctype(cases[i].data) and rxlib.result_class(off_) == "ok":
            out.append(([i + 1], "a document whose prolog reaches a DOCTYPE declaration is accepted under allow_dtd=false"))
        if b"<!DOCTYPE" not in cases[i].data and off_ != on:
            out.append(([i, i + 1], "no '<!DOCTYPE' in the input but the results differ"))
        if rxlib.result_class(off_) == "ok":
            total = sum(len(oracles.unhex(l.split(" ")[2])) for l in off_ if l.startswith("X ")) + \
                sum(len(oracles.unhex(l.split(" ")[5])) for l in off_ if l.startswith("A "))
            if total > len(cases[i].data):
                out.append(([i + 1], "content %d bytes exceeds the input (%d bytes) under default options" % (total, len(cases[i].data))))
    return out


def c18_cases(tier, seed):
    q = tier == "quick"
    cs = gens.g_cst(seed, 1000 if q else 8000, flags="ncb", renderings=2, hoist=True)
    cs += gens.g_fixtures(flags="ncb") + gens.g_tokens(2 if q else 3, flags="ncb") + gens.g_ent_random(seed, 300 if q else 3000, flags="ncb")
    cs += gens.g_long(flags="ncb")
    rnd = random.Random(seed + 5)
    more = gens.g_pieces_text(3, positions=(0, 1))
    cs += [Case(c.data, "ncb", True, meta=c.meta) for c in rnd.sample(more, min(len(more), 3000 if q else 20000))]
    more = gens.g_pieces_attr(3)
    cs += [Case(c.data, "ncb", True, meta=c.meta) for c in rnd.sample(more, min(len(more), 2000 if q else 8000))]
    cs += gens.g_utf8_bytes(flags="ncb") + gens.g_cr_in_misc(flags="ncb") + gens.g_borrow_after(flags="ncb") + gens.g_long_prefix_then_ref(flags="ncb")
    # fast-path families
    for body, borrowed in (("plain text", True), ("two\nlines\ttab", True), ("a&amp;b", False), ("a\rb", False), ("a\r\nb", False), ("é中", True), ("a&#65;", False)):
        cs.append(Case("<r>" + body + "</r>", "ncb", True, meta={"gen": "fast-text", "expect_borrowed_text": borrowed, "text_node": 2}))
    for body, borrowed in (("x", True), ("a>b ]]", True), ("a\rb", False), ("a\r\nb", False), ("a\nb", True), ("<&>", True)):
        cs.append(Case("<r><![CDATA[" + body + "]]></r>", "ncb", True, meta={"gen": "fast-cdata", "expect_borrowed_text": borrowed, "text_node": 2}))
    for body, borrowed in (("v", True), ("a b", True), ("", True), ("a&amp;b", False), ("a\tb", False), ("a\nb", False), ("a\rb", False), ("é", True), ("a&#9;", False)):
        cs.append(Case("<r k='" + body + "'/>", "ncb", True, meta={"gen": "fast-attr", "expect_borrowed_attr": borrowed}))
        # the same inside an element that comes from an entity's replacement text (nested once and twice)
        if "'" not in body:
            cs.append(Case("<!DOCTYPE r [<!ENTITY e '<a k=\"" + body + "\"/>'>]><r>&e;</r>", "ncb", True, meta={"gen": "fast-attr-in-entity", "expect_borrowed_attr": borrowed}))
            cs.append(Case("<!DOCTYPE r [<!ENTITY e '<a k=\"" + body + "\"/>'><!ENTITY f 'x&e;y'>]><r>&f;</r>", "ncb", True, meta={"gen": "fast-attr-in-entity2", "expect_borrowed_attr": borrowed}))
    for body in ("if a > b then", "x => y", "-->|", "a>b>c", ">", "]>", "a ]] > b"):
        cs.append(Case("<r>" + body + "</r>", "ncb", True, meta={"gen": "fast-text-gt", "expect_borrowed_text": True, "text_node": 2}))
        cs.append(Case("<!DOCTYPE r [<!ENTITY e '<a>" + body + "</a>'>]><r>&e;</r>", "ncb", True, meta={"gen": "fast-text-gt-in-entity", "expect_borrowed_text": True, "text_node": 3}))
    for body, borrowed in (("plain", True), ("a&amp;b", False), ("é中", True)):
        cs.append(Case("<!DOCTYPE r [<!ENTITY e '<a>" + body + "</a>'>]><r>&e;</r>", "ncb", True, meta={"gen": "fast-text-in-entity", "expect_borrowed_text": borrowed, "text_node": 3}))
        # a text node that consists solely of a reference to an entity whose replacement text is that literal piece
        # (directly and through another entity): the node borrows the entity value inside the DOCTYPE
        cs.append(Case("<!DOCTYPE r [<!ENTITY e '" + body + "'>]><r>&e;</r>", "ncb", True, meta={"gen": "fast-text-entity-value", "expect_borrowed_text": borrowed, "text_node": 2}))
        cs.append(Case("<!DOCTYPE r [<!ENTITY e '" + body + "'><!ENTITY o '&e;'>]><r>&o;</r>", "ncb", True, meta={"gen": "fast-text-entity-value-nested", "expect_borrowed_text": borrowed, "text_node": 2}))
    return cs


# ---------------------------------------------------------------------------------------------
# runtime families (implementation only, isolated child processes)
# ---------------------------------------------------------------------------------------------
def run_child(harness, data, flags="-", dtd=True, limit=U32MAX, timeout=60):
    with tempfile.NamedTemporaryFile("wb", suffix=".xml", dir=BUILD, delete=False) as f:
        f.write(data)
        path = f.name
    try:
        t0 = time.time()
        try:
            p = subprocess.run([harness, "child", flags, "1" if dtd else "0", str(limit), path], stdout=subprocess.PIPE,
                               stderr=subprocess.DEVNULL, timeout=timeout, env=rxlib.ENV)
            rc, out = p.returncode, p.stdout.decode("utf-8", "replace")
        except subprocess.TimeoutExpired:
            rc, out = -999, ""
        dt = time.time() - t0
    finally:
        os.unlink(path)
    if rc == -999:
        return "timeout", dt
    if rc != 0:
        return "signal/exit %d" % rc, dt
    line = out.splitlines()[0] if out else ""
    if " R ok" in line:
        return "ok", dt
    if " R err" in line:
        return "err", dt
    return "panic", dt


def scale_families(tier):
    q = tier == "quick"
    fam = []
    for k in ([1000, 100000] if q else [1000, 10000, 100000, 1000000]):
        fam.append(("nest-closed-%d" % k, b"<a>" * k + b"</a>" * k, "ok"))
        fam.append(("nest-unclosed-%d" % k, b"<a>" * k, "err"))
        fam.append(("nest-mixed-%d" % k, b"<a><b/>t" * k + b"</a>" * k, "ok"))
    w = 20000 if q else 100000
    fam.append(("siblings-%d" % w, b"<r>" + b"<a/>" * w + b"</r>", "ok"))
    fam.append(("attributes-%d" % (w // 4), b"<r " + b" ".join(b"a%d='v'" % i for i in range(w // 4)) + b"/>", "ok"))
    fam.append(("namespaces-%d" % (w // 10), b"<r " + b" ".join(b"xmlns:p%d='u%d'" % (i, i) for i in range(w // 10)) + b"/>", "ok"))
    fam.append(("text-%dMiB" % (1 if q else 8), b"<r>" + b"lorem ipsum \n" * ((1 if q else 8) * 80000) + b"</r>", "ok"))
    decls = b"".join(b"<!ENTITY l%d '%s'>" % (i, (b"&l%d;" % (i - 1)) * 2 if i else b"z") for i in range(8))
    fam.append(("entity-depth-8-fan-2", b"<!DOCTYPE r [" + decls + b"]><r>&l7;</r>", "ok"))
    deep = b"".join(b"<!ENTITY d%d '<e>&d%d;</e>'>" % (i, i - 1) if i else b"<!ENTITY d0 'z'>" for i in range(10))
    fam.append(("entity-chain-10-elements", b"<!DOCTYPE r [" + deep + b"]><r>&d9;</r>", "ok"))
    # the boundaries of the 16-bit namespace index and of the saturating attribute position fields
    for k in (65534, 65535, 65536, 65537):
        fam.append(("distinct-namespaces-%d" % k, b"<r>" + b"".join(b"<p:e xmlns:p='u%d'/>" % i for i in range(k)) + b"</r>", "any"))
    fam.append(("distinct-namespaces-one-element-65536", b"<r " + b" ".join(b"xmlns:p%d='u%d'" % (i, i) for i in range(65536)) + b"/>", "any"))
    fam.append(("attributes-65537", b"<r " + b" ".join(b"a%d='v'" % i for i in range(65537)) + b"/>", "ok"))
    return fam


def c01_extra(tier, seed, harness_rel, harness_dbg):
    fails = []
    info = []
    # the DEBUG build (overflow checks, debug assertions) on the small inputs of the corpus: arithmetic that wraps
    # silently in release panics here
    if harness_dbg:
        q = tier == "quick"
        seen, small = set(), []
        for c in c01_cases(tier, seed):
            if len(c.data) <= 120 and c.data not in seen and c.limit == U32MAX and c.dtd:
                seen.add(c.data)
                small.append(Case(c.data, "", True, meta=c.meta))
        rnd = random.Random(seed)
        keep = [c for c in small if (c.meta or {}).get("gen") in ("charref-width", "entity-value-prefix")]
        rest = [c for c in small if (c.meta or {}).get("gen") not in ("charref-width", "entity-value-prefix")]
        small = keep + rnd.sample(rest, min(len(rest), 4000 if q else 40000))
        # every option value of the quantifier under the debug build as well: arithmetic on nodes_limit (0, 1, 2, small, u32::MAX),
        # with and without allow_dtd, on a handful of inputs (the empty input among them)
        for data in (b"", b"<a/>", b"<a>t<b/>u</a>", b"<!DOCTYPE a [<!ENTITY e '<b/>x'>]><a>&e;&e;</a>", b"<a", b"\xef\xbb\xbf<?xml version='1.0'?><a k='v'/>"):
            for lim in (0, 1, 2, 3, 5, U32MAX - 1, U32MAX):
                for dtd in (True, False):
                    small.append(Case(data, "", dtd, lim, meta={"gen": "options-debug-build"}))
        res = rxlib.run_sharded(harness_dbg, ["dump"], small, os.path.join(BUILD, "work-C01"), "dbg")
        bad = [(i, res[i][0] if res[i] else "no output") for i in range(len(small)) if rxlib.result_class(res[i]) not in ("ok", "err")]
        info.append({"family": "corpus-debug-build", "cases": len(small), "failures": len(bad)})
        for i, head in bad[:3]:
            fails.append({"why": "parse does not return Ok/Err under the debug build (overflow check / debug assertion): " + head,
                          "family": "corpus-debug-build", "input": small[i].data.decode("utf-8", "replace")[:300], "input_hex": small[i].data.hex()})
    for name, data, expect in scale_families(tier):
        for hname, h in (("release", harness_rel), ("debug", harness_dbg)):
            if h is None:
                continue
            if hname == "debug" and len(data) > 3000000:
                continue
            res, dt = run_child(h, data, timeout=120)
            info.append({"family": name, "build": hname, "result": res, "seconds": round(dt, 2), "bytes": len(data)})
            if res not in ("ok", "err"):
                fails.append({"why": "scale family %s (%s build): %s" % (name, hname, res), "family": name, "build": hname,
                              "input_head": data[:60].decode("utf-8", "replace"), "bytes": len(data)})
    return fails, info


def c10_extra(tier, seed, harness_rel, harness_dbg):
    """API totality on scale families: deep / wide documents, Debug printing at depth 10^4; and the whole battery
    under the DEBUG build (overflow checks, debug assertions) on small documents"""
    q = tier == "quick"
    fails, info = [], []
    if harness_dbg:
        small = [c for c in c10_cases(tier, seed) if len(c.data) <= 160][: (600 if q else 6000)]
        work = os.path.join(BUILD, "work-C10")
        res = rxlib.run_sharded(harness_dbg, ["dump"], small, work, "dbg")
        bad = [(i, res[i][0]) for i in range(len(small)) if rxlib.result_class(res[i]) not in ("ok", "err")]
        info.append({"family": "api-battery-debug-build", "cases": len(small), "failures": len(bad)})
        for i, head in bad[:3]:
            fails.append({"why": "the read-API battery does not return normally under the debug build (overflow / debug assertion): " + head,
                          "family": "api-battery-debug-build", "input": small[i].data.decode("utf-8", "replace")[:300], "input_hex": small[i].data.hex(), "flags": small[i].flags})
    # the batteries behind 'n' and 'a' are quadratic on these shapes (descendants().count() and the sibling / ancestor axes of
    # every node): 20 000 takes 40 s, 100 000 does not finish within any reasonable limit
    d = 20000 if q else 30000
    fams = [("deep-%d-api" % d, b"<a>" * d + b"</a>" * d, "nat"),
            ("wide-%d-api" % d, b"<r>" + b"<a/>" * d + b"</r>", "nat"),
            ("deep-%d-debug" % (9000 if q else 12000), b"<a>" * (9000 if q else 12000) + b"</a>" * (9000 if q else 12000), "g"),
            ("deep-attrs-8200-debug", b"<a b='1'>" * 8200 + b"</a>" * 8200, "g"),
            ("nonascii-lines-api", ("<r>" + "é中\n" * (2000 if q else 20000) + "</r>").encode(), "t" if q else "t")]
    for name, data, flags in fams:
        if flags == "t" and len(data) > 40000:
            data = ("<r>" + "é中\n" * 1500 + "</r>").encode()    # text_pos_at for every offset is quadratic
        res, dt = run_child(harness_rel, data, flags=flags, timeout=900)
        info.append({"family": name, "result": res, "seconds": round(dt, 2), "bytes": len(data)})
        if res != "ok":
            fails.append({"why": "API scale family %s: %s" % (name, res), "family": name, "bytes": len(data)})
    return fails, info


def c20_extra(tier, seed, harness_rel, harness_dbg):
    """threads: 16 readers over one Document; no unsafe; forbid attribute present"""
    fails, info = [], []
    work = os.path.join(BUILD, "work-C20")
    os.makedirs(work, exist_ok=True)
    cs = gens.g_cst(seed, 40 if tier == "quick" else 300, flags="ncpalt", renderings=2, hoist=True) + gens.g_fixtures(flags="ncpalt")
    path = os.path.join(work, "threads.cases")
    rxlib.write_cases(cs, path)
    p = subprocess.run([harness_rel, "threads", path, "16", "8" if tier == "quick" else "40"], stdout=subprocess.PIPE, stderr=subprocess.DEVNULL, env=rxlib.ENV)
    out = p.stdout.decode()
    same = diff = 0
    for l in out.splitlines():
        f = l.split(" ")
        if len(f) >= 4 and f[1] == "TH" and f[2] != "skip":
            same += int(f[2])
            diff += int(f[3])
            if int(f[3]):
                fails.append({"why": "a reader thread observed a different dump", "case": cs[int(f[0])].describe()})
    if p.returncode != 0:
        fails.append({"why": "threads mode exited with %d" % p.returncode})
    info.append({"thread_dumps_equal": same, "thread_dumps_different": diff})
    # reads must not depend on hidden state either: the LB probe of the lookup battery (same query through an overwritten
    # buffer, reverse pass, alternating far-apart nodes) on the same documents and on a document with more than 2^16 nodes
    # node ids i and i + 65536 (and i + 256) lie under different default namespaces
    big = Case("<r xmlns='urn:outer' xmlns:p='urn:p'>" + "<c/>" * 254 + "<m xmlns='urn:mid'>" + "<c/>" * 300 + "</m>" + "<c/>" * (65535 - 254 - 301) + "<d xmlns='urn:inner'>" + "<e/>" * 200 + "<p:e p:b='2'/></d></r>", "l", True, meta={"gen": "hidden-state-65536"})
    probe = [Case(c.data, "l", True, meta=c.meta) for c in cs] + [big]
    res = rxlib.run_sharded(harness_rel, ["dump"], probe, work, "probe")
    bad = 0
    for i, c in enumerate(probe):
        r = oracles.o_lookups(c, res[i]) if rxlib.result_class(res[i]) == "ok" else None
        if r:
            bad += 1
            if bad <= 2:
                fails.append({"why": r, "case": c.describe() if len(c.data) < 5000 else {"gen": "hidden-state-65536"}})
    info.append({"hidden_state_probe_documents": len(probe), "anomalous": bad})
    # auto traits, decided by rustc: a separate binary whose compilation is the obligation
    env2 = dict(rxlib.ENV)
    rc, o = rxlib.run(["cargo", "run", "--offline", "--release", "--bin", "autotraits", "--target-dir", os.path.join(rxlib.HARNESS, "target")], cwd=rxlib.HARNESS, env=env2)
    info.append({"autotraits_binary": "ok" if rc == 0 else "failed to build / run"})
    if rc != 0:
        errs = [l for l in o.splitlines() if "error" in l or "cannot be" in l or "Send" in l or "Sync" in l][:12]
        fails.append({"why": "a public type is no longer Send + Sync (or an iterator can no longer be moved to another thread): " + " | ".join(errs)[:900]})
    # the unsafe ban, decided by rustc: build the library with -F unsafe_code
    env = dict(rxlib.ENV)
    rc, o = rxlib.run(["cargo", "rustc", "--offline", "--lib", "--target-dir", os.path.join(BUILD, "unsafe-check"), "--", "-F", "unsafe_code"], cwd=rxlib.REPO, env=env)
    info.append({"cargo_rustc_-F_unsafe_code": "ok" if rc == 0 else "failed"})
    if rc != 0:
        fails.append({"why": "the crate does not compile with -F unsafe_code", "output": o[-1500:]})
    src = open(os.path.join(rxlib.REPO, "src", "lib.rs")).read()
    if "#![forbid(unsafe_code)]" not in src:
        fails.append({"why": "#![forbid(unsafe_code)] is no longer in src/lib.rs"})
    for fn in ("lib.rs", "parse.rs", "tokenizer.rs"):
        t = open(os.path.join(rxlib.REPO, "src", fn)).read()
        import re
        if re.search(r"\bunsafe\b\s*(\{|fn|impl|trait)", t):
            fails.append({"why": "unsafe code in src/" + fn})
    return fails, info


FEATURE_SETS = {"default": None, "none": [], "std": ["std"], "positions": ["positions"]}


def c19_corpus(tier, seed):
    q = tier == "quick"
    return gens.g_cst(seed, 300 if q else 3000, flags="nc", renderings=2, hoist=True) + gens.g_fixtures(flags="nc", benches=not q) + \
        gens.g_tokens(2, flags="nc") + gens.g_mutations(seed, 500 if q else 5000, flags="nc") + gens.g_meta(2, flags="nc") + \
        gens.g_ent_random(seed, 200 if q else 2000, flags="nc") + gens.g_long(flags="nc", counts=[2, 17, 33, 34, 65]) + \
        [Case("<a xmlns:xml='http://www.w3.org/XML/1998/namespace' xmlns:xml='http://www.w3.org/XML/1998/namespace'/>", "nc", True, meta={"gen": "d21"})]


def c19_extra(tier, seed, harness_rel, harness_dbg):
    """feature sets x repeated, interleaved parses; dumps minus P must be identical"""
    fails, info = [], []
    work = os.path.join(BUILD, "work-C19")
    os.makedirs(work, exist_ok=True)
    cs = c19_corpus(tier, seed)
    # a failing parse in between must not influence the next one: interleave rejected inputs
    # repeated and interleaved: the list is run as  cs ++ reverse(cs) ++ cs  in one process
    seq = cs + list(reversed(cs)) + cs
    ref = None
    for name, feats in FEATURE_SETS.items():
        if feats is None:
            h = harness_rel
        else:
            h = rxlib.build_harness("release", features=feats, target_dir=os.path.join(rxlib.HARNESS, "target-" + name))
        res = rxlib.run_sharded(h, ["dump"], seq, work, "feat-" + name, nshards=1)
        n = len(cs)
        for i in range(n):
            a, b2, c = res[i], res[2 * n - 1 - i], res[2 * n + i]
            if not (a == b2 == c):
                fails.append({"why": "repeated parse of the same input differs (feature set %s)" % name, "case": cs[i].describe()})
                break
        cur = [res[i] for i in range(n)]
        if ref is None:
            ref = cur
        else:
            for i in range(n):
                if cur[i] != ref[i]:
                    fails.append({"why": "feature set %s differs from default" % name, "case": cs[i].describe(), "default": ref[i][:3], "this": cur[i][:3]})
                    break
        info.append({"feature_set": name, "cases": n, "parses": 3 * n})
    return fails, info, cs


# ---------------------------------------------------------------------------------------------
PROPS = {}


def defprop(*a, **k):
    p = Prop(*a, **k)
    PROPS[p.pid] = p


defprop("C01", "proof", {"R"}, c01_cases, oracle=oracles.o_total, extra=c01_extra,
        nontrivial=lambda c, l: len(c.data) >= 3,
        rule="exhaustive meta-alphabet strings (+ embedded in content / attribute), token strings, every prefix of the fixtures, seeded mutations, entity graphs, random documents, option sweep; non-trivial = input of >= 3 bytes; distinct by (input, options)",
        technique="Coq model + theorems (no-panic/termination lemmas) + model/impl correspondence + isolated scale runs")
defprop("C02", "proof", {"R", "N", "NK"}, lambda t, s: tree_cases(t, s, "n"), oracle=oracles.o_wf_tree,
        nontrivial=lambda c, l: rxlib.result_class(l) == "ok" and int(l[0].split(" ")[2]) >= 4,
        rule="exhaustive token strings x 6 entity tables (plain and wrapped in a root), random documents with hoisting, fixtures, entity graphs, mutations; non-trivial = accepted with >= 4 nodes; distinct by link table",
        technique="Coq proof of the arena/tree invariant + correspondence")
defprop("C03", "proof", {"R", "N", "NK", "Q", "K", "C"}, c03_cases, oracle=all_oracles(oracles.o_expected_content(("Q", "K", "C")), oracles.o_misc_verbatim),
        rule="random abstract documents x 4..8 renderings (layout, quotes, BOM, declaration, DOCTYPE forms), fixtures; non-trivial = accepted; distinct by dump",
        technique="Coq model + lexer/builder lemmas (partial) + three-way correspondence (impl / model / reference semantics)")
defprop("C04", "proof", {"R", "N", "NK", "X"}, c04_cases, oracle=all_oracles(oracles.o_text_pieces, oracles.o_expected_content(("X",))),
        rule="exhaustive piece sequences over a 19-piece alphabet at three sibling positions + sampled longer ones + random documents; non-trivial = accepted; distinct by dump",
        technique="Coq proof of the text decoding machine + correspondence")
defprop("C05", "proof", {"R", "A"}, c05_cases, oracle=all_oracles(oracles.o_attr_pieces, oracles.o_expected_content(("A",)), oracles.o_must_reject),
        rule="exhaustive attribute-value piece sequences (15 pieces, both quotes), attribute lists of 0..40, random documents; non-trivial = accepted; distinct by dump",
        technique="Coq proof of attribute-value normalisation + correspondence")
defprop("C06", "proof", {"R", "Q", "A", "S"}, c06_cases, oracle=oracles.o_expected_content(("Q", "A", "S")), extra=c06_extra,
        rule="all trees of <= 2 (quick) / 3 (thorough) elements x 7 declaration choices x 4 prefixes, declaration pairs, prefixed attributes, random documents; non-trivial = accepted; distinct by dump",
        technique="Coq proof of scope refinement + correspondence")
defprop("C07", "proof", {"R", "N", "NK", "Q", "A", "S", "K", "C", "X"}, c07_cases, oracle=all_oracles(oracles.o_expected_content(oracles.CONTENT), oracles.o_wf_tree),
        rule="random documents, each rendered inline and with random hoistings of content and attribute substrings into (nested, repeated, doubly declared) entities; non-trivial = accepted and uses >= 1 entity",
        nontrivial=lambda c, l: rxlib.result_class(l) == "ok" and b"<!ENTITY" in c.data,
        technique="Coq lemmas (attribute half, builder half; partial) + metamorphic correspondence")
defprop("C08", "proof", {"R"}, c08_cases, oracle=oracles.o_must_reject,
        nontrivial=lambda c, l: bool(c.meta and (c.meta.get("illformed") or c.meta.get("wellformed"))),
        rule="catalogue of ill-forming constructs, catalogue edits at content positions of generated documents, every truncation before the root end, meta strings, token strings, code points at every table boundary +- 1 and a sample (quick) / every 7th + sample (thorough) in text, name-start and name position; non-trivial = carries an expectation",
        technique="Coq proof of the character tables (translator-tied) + builder rejection lemmas + correspondence")
defprop("C09", "proof", {"R", "E", "X", "A"}, c09_cases, oracle=oracles.o_entities,
        rule="cycles of length 1..32 from text / attribute / attribute inside an entity, fan-out f x depth d families, chains, many top-level references, random entity graphs",
        nontrivial=lambda c, l: True,
        technique="Coq proof of the loop detector (sound + complete), of the node / byte expansion budget over a whole parse and of cycle => EntityReferenceLoop + correspondence")
defprop("C10", "proof", None, c10_cases, oracle=oracles.o_total, extra=c10_extra,
        rule="every battery (links, axes, iterators with all F/B words <= 4 and nth/len scripts, lookups, identity, text_pos_at for offsets 0..len+2, Debug/Display into a sink) on enumerated and random documents",
        technique="Coq model of the read API (panic sites explicit) + correspondence + isolated scale runs")
defprop("C11", "proof", {"R", "N", "NK", "AX", "AE", "AH", "AT", "AR", "D"}, lambda t, s: api_docs(t, s, "ncad"), oracle=all_oracles(oracles.o_wf_tree, oracles.o_navigation),
        rule="every node of enumerated token-string documents, random documents and fixtures x every axis, element variant, text/tail, and every F/B word <= 4 plus nth/len scripts on the four double-ended iterators",
        technique="Coq proof that the iterator state machines implement the deque specification + correspondence")
defprop("C12", "proof", {"R", "L", "LQ", "LB"}, lambda t, s: api_docs(t, s, "ncl"), oracle=oracles.o_lookups,
        rule="every node x query names {present pairs, same local with no / other / empty namespace, absent, reserved URIs}, prefixes and URIs in scope, attribute equality matrix",
        technique="Coq proof of the lookup functions against enumeration + correspondence")
defprop("C13", "proof", {"R", "P", "PA"}, c13_cases_with_shift, oracle=oracles.o_ranges, relation=c13_relation,
        rule="random documents (layout variation, non-ASCII), DOCTYPE-free for the nesting clauses, entity-expanded for validity, saturation families, shift pairs",
        technique="Coq model with positions + range lemmas (partial) + correspondence + range oracle")
defprop("C14", "proof", {"R", "E", "EV", "EM", "TP"}, c14_cases, oracle=oracles.o_positions, relation=c14_relation,
        nontrivial=lambda c, l: rxlib.result_class(l) == "err",
        rule="errors produced by meta strings, mutations, token strings, the ill-forming catalogue, entity graphs; text_pos_at for every offset 0..len+2; whitespace-insertion pairs; non-trivial = rejected",
        technique="Coq proof of the position function against its specification + correspondence")
defprop("C15", "proof", {"R", "N", "E"}, c15_cases, oracle=None, relation=c15_relation,
        rule="inputs x limits {0..10,12,16, 3 random, guesses around N, u32::MAX} x allow_dtd",
        technique="Coq proof of the limit simulation + correspondence")
defprop("C16", "proof", {"R", "E", "N", "Q", "A", "S", "K", "C", "X", "P", "PA"}, c16_cases, oracle=None, relation=c16_relation,
        rule="inputs x {allow_dtd true, false, Document::parse}; DOCTYPE forms at every prolog position and DOCTYPE-like text inside comments/CDATA/PIs/values",
        technique="Coq proof of the option relation + correspondence")
defprop("C17", "proof", {"R", "OG", "OC", "OS", "OH", "OI"}, lambda t, s: api_docs(t, s, "no"), oracle=oracles.o_identity,
        rule="two simultaneously live parses of each document: get_node for 0..n+2 and u32::MAX-1, eq/cmp/partial_cmp matrix over 12 nodes, sort of all nodes, HashSet",
        technique="Coq proof of the order axioms on (document, id) keys + correspondence")
defprop("C18", "proof", {"R", "B"}, c18_cases, oracle=oracles.o_borrowed,
        rule="random documents with and without decoding-forcing constructs, entity-expanded nodes, fast-path families",
        technique="Coq model where a borrowed string is an offset pair + bounds lemmas + correspondence")
defprop("C19", "translation_validation", {"R", "E", "N", "Q", "A", "S", "K", "C", "X"}, c19_corpus, oracle=None, extra=c19_extra,
        rule="shared corpus parsed three times (forward, reversed, forward) in one process under four feature sets",
        technique="correspondence across feature builds (translation validation); model is a function by construction")
defprop("C20", "other", None, lambda t, s: [], oracle=None, extra=c20_extra, model_side=False,
        rule="16 reader threads x repetitions over shared documents; rustc decides Send/Sync and the unsafe ban",
        technique="schedule-independence of the pure model + threads correspondence; auto traits decided by rustc")


# ---------------------------------------------------------------------------------------------
# the check
# ---------------------------------------------------------------------------------------------
def corpus_cases(pid):
    d = os.path.join(VERIF, "corpus", pid)
    out = []
    if os.path.isdir(d):
        for f in sorted(os.listdir(d)):
            if f.endswith(".json"):
                o = json.load(open(os.path.join(d, f)))
                out.append(Case(bytes.fromhex(o["input_hex"]), o.get("flags", ""), o.get("allow_dtd", True), o.get("nodes_limit", U32MAX),
                                meta=dict(o.get("meta") or {}, gen="corpus", file=f)))
    return out


def known_for(pid):
    return [k for k in rxlib.known_findings().get("known", []) if pid in k.get("properties", [])]


def run_property(pid, tier, seed):
    t0 = time.time()
    P = PROPS[pid]
    proof_problems = []
    theorems = []
    work = os.path.join(BUILD, "work-" + pid)
    os.makedirs(work, exist_ok=True)
    harness_dbg = None
    model_ok = True
    with rxlib.Lock("build"):
        untied = []
        try:
            rxlib.gen_tables()
            try:
                untied = json.load(open(os.path.join(BUILD, "tie_status.json")))["untied"]
            except (OSError, ValueError, KeyError):
                untied = []
        except rxlib.TieLost as e:
            proof_problems.append("translator cannot read the source any more (tie lost): %s" % e)
        # the model first (everything depends on it), then only what this property's theorems need,
        # so that a proof that breaks for another property does not raise an alarm here
        rc, out = rxlib.coq_make(rxlib.model_targets())
        if rc != 0:
            tail = "\n".join(out.splitlines()[-25:])
            proof_problems.append("the Coq model no longer compiles against the regenerated tables: " + tail)
        elif os.path.exists(os.path.join(rxlib.COQ, "Properties", pid + ".v")):
            rc2, out2 = rxlib.coq_make(["Properties/%s.vo" % pid])
            if rc2 != 0:
                tail = "\n".join(out2.splitlines()[-25:])
                proof_problems.append("a proof obligation of %s no longer checks (against the model / the regenerated tables): %s" % (pid, tail))
        bad = rxlib.scan_sources()
        if bad:
            proof_problems.append("forbidden vernacular in the development: " + "; ".join(bad[:5]))
        ok, theorems, probs, _ = rxlib.check_property_file(pid)
        proof_problems += probs
        try:
            if rc == 0:
                rxlib.build_model_driver()
        except rxlib.BuildError as e:
            proof_problems.append("extraction / driver build failed: %s" % str(e)[-800:])
        model_ok = os.path.exists(DRIVER) and rc == 0
        harness = rxlib.build_harness("release")
        if pid in ("C01", "C10"):
            harness_dbg = rxlib.build_harness("debug")
    t_build = time.time() - t0

    cases = corpus_cases(pid) + P.cases(tier, seed)
    impl = rxlib.run_sharded(harness, ["dump"], cases, work, "impl") if cases else {}
    # cases marked impl_only (scale families whose cost in the list-based model is quadratic) are
    # judged by the oracle only; the model sees a tiny stand-in so that indices stay aligned
    if cases and model_ok and P.model_side:
        mcases = [c if not (c.meta or {}).get("impl_only") else Case(b"<skip/>", "-", True) for c in cases]
        model = rxlib.run_sharded(DRIVER, [], mcases, work, "model")
    else:
        model = {}

    diffs, failing = [], []
    kinds = collections.Counter()
    errs = collections.Counter()
    gen_hist = collections.Counter()
    len_hist = collections.Counter()
    distinct = set()
    for i, c in enumerate(cases):
        li = impl[i]
        cls = rxlib.result_class(li)
        kinds[cls] += 1
        gen_hist[(c.meta or {}).get("gen", "?")] += 1
        len_hist[min(len(c.data).bit_length(), 12)] += 1
        for l in li:
            if l.startswith("E "):
                errs[l.split(" ")[1]] += 1
        if model and not (c.meta or {}).get("impl_only"):
            a = rxlib.project(li, P.sections)
            b2 = rxlib.project(model[i], P.sections)
            if a != b2:
                diffs.append(i)
        if P.oracle:
            r = P.oracle(c, li)
            if r:
                failing.append((i, r))
        if P.nontrivial(c, li):
            distinct.add(hashlib.md5(("\n".join(rxlib.project(li, P.sections)) + "|" + c.data.hex() + str(c.dtd) + str(c.limit)).encode()).digest())
    rel = P.relation(cases, impl) if (P.relation and cases) else []
    # extraction spot check (the model evaluated inside Coq vs the extracted code)
    spot_n, spot_mism = (0, [])
    if model and (pid == "C02" or tier == "thorough"):
        rnd = random.Random(seed)
        sample = [c for c in cases if len(c.data) <= 120]
        sample = rnd.sample(sample, min(len(sample), 40))
        spot_n, spot_mism = rxlib.extraction_spot_check(sample, work)
        if spot_mism:
            proof_problems.append("extraction spot check: the extracted model disagrees with the model evaluated inside Coq: " + "; ".join(spot_mism[:3]))
    extra_fails, extra_info = [], []
    extra_cases = None
    if P.extra:
        r = P.extra(tier, seed, harness, harness_dbg)
        extra_fails, extra_info = r[0], r[1]
        if len(r) > 2:
            extra_cases = r[2]

    # known findings: printed, never counted
    for k in known_for(pid):
        kc = Case(bytes.fromhex(k["input_hex"]), "nc", k.get("allow_dtd", True))
        res = rxlib.run_sharded(harness, ["dump"], [kc], work, "known", nshards=1)[0]
        if k.get("text_hex"):
            if any(l.split(" ")[0] == "X" and l.split(" ")[-1] == "x" + k["text_hex"] for l in res):
                print("KNOWN-FINDING: property=%s %s" % (pid, k["what"]))
        elif k.get("accepted"):
            if rxlib.result_class(res) == "ok":
                print("KNOWN-FINDING: property=%s %s" % (pid, k["what"]))
        elif any(l.startswith("E " + k["error"]) for l in res):
            print("KNOWN-FINDING: property=%s %s" % (pid, k["what"]))

    violations = 0
    lines_out = []

    def violation(name, obj, found):
        nonlocal violations
        violations += 1
        path = rxlib.write_replay(pid, name, obj)
        lines_out.append("VIOLATION property=%s replay=%s%s" % (pid, path, "" if found else " no-failing-input-found"))

    if failing:
        i, why = failing[0]
        violation("input", {"property": pid, "kind": "failing-input", "why": why, "case": cases[i].describe(),
                            "implementation": impl[i][:40], "model": (model.get(i) or [])[:40],
                            "other_failing_cases": len(failing) - 1,
                            "replay": "./check replay <this file>"}, True)
    if rel:
        idxs, why = rel[0]
        violation("relation", {"property": pid, "kind": "failing-relation", "why": why, "cases": [cases[j].describe() for j in idxs],
                               "implementation": [impl[j][:20] for j in idxs], "other_failing": len(rel) - 1}, True)
    for k, f in enumerate(extra_fails[:3]):
        violation("runtime%d" % k, dict(f, property=pid, kind="runtime/feature/threads"), True)
    if not (failing or rel or extra_fails) and (diffs or proof_problems):
        # the property is no longer shown to hold: search for a concrete failing input with the oracle
        found = None
        if P.oracle and tier == "quick":
            more = P.cases("thorough", seed + 1)
            mi = rxlib.run_sharded(harness, ["dump"], more, work, "search")
            for j, c in enumerate(more):
                r = P.oracle(c, mi[j])
                if r:
                    found = (c, r, mi[j])
                    break
        if found:
            c, r, lines = found
            violation("search", {"property": pid, "kind": "failing-input (found by the search after a proof / correspondence break)", "why": r,
                                 "case": c.describe(), "implementation": lines[:40], "proof_problems": proof_problems[:5],
                                 "correspondence_differences": len(diffs)}, True)
        else:
            obj = {"property": pid, "kind": "no-failing-input-found", "proof_problems": proof_problems[:8],
                   "correspondence_differences": len(diffs), "sections_compared": sorted(P.sections) if P.sections else "all"}
            if diffs:
                i = diffs[0]
                obj["first_difference"] = {"case": cases[i].describe(), "implementation": rxlib.project(impl[i], P.sections)[:40],
                                           "model": rxlib.project(model[i], P.sections)[:40]}
            violation("unproved", obj, False)

    wall = time.time() - t0
    samples = [c.describe() for c in (cases[:1] + cases[len(cases) // 3: len(cases) // 3 + 2] + cases[-2:])] if cases else []
    if extra_cases:
        samples += [c.describe() for c in extra_cases[:3]]
    if not samples:
        samples = [{"runtime_family": x} for x in extra_info[:5]]
    for s in samples:
        if isinstance(s, dict) and "meta" in s and isinstance(s["meta"], dict):
            s["meta"] = {k: (v if not isinstance(v, list) or len(v) < 8 else v[:8] + ["..."]) for k, v in s["meta"].items()}
        if isinstance(s, dict) and len(s.get("input", "")) > 400:
            s["input"] = s["input"][:400] + "..."
            s["input_hex"] = s["input_hex"][:800] + "..."
    evaluations = len(cases) + (len(extra_cases) * 12 if extra_cases else 0) + len(extra_info)
    ev = {
        "property_id": pid, "tier": tier, "seed": seed, "level": P.level,
        "coverage": {
            "evaluations": max(1, evaluations),
            "distinct_nontrivial": max(len(distinct), (len(extra_cases) if extra_cases else 0), len(extra_info)),
            "rule": P.rule,
            "samples": samples,
            "traces_validated_against_impl": len(cases) if model else 0,
            "programs": max(1, len(cases)),
            "disagreements_checked": len(diffs),
            "obligations": len(theorems), "discharged": len(theorems) if not proof_problems else 0,
            "theorems": theorems,
            "checker_cmd": "cd coq && make && coqc -Q . RX Properties/%s.v  (Print Assumptions under every theorem; grep for Admitted/Axiom/...)" % pid,
            "trusted_base": TRUSTED_BASE,
            "explanation": "technique: %s. Model/implementation correspondence on %d cases (sections %s), %d differences; direct oracle failures: %d; relation failures: %d; runtime/feature failures: %d; proof-side problems: %d."
                           % (P.technique, len(cases) if model else 0, ",".join(sorted(P.sections)) if P.sections else "all", len(diffs), len(failing), len(rel), len(extra_fails), len(proof_problems)),
            "exhaustive": False,
            "result_kinds": dict(kinds), "error_variants_hit": dict(errs), "generators": dict(gen_hist),
            "input_length_log2_histogram": {str(k): v for k, v in sorted(len_hist.items())},
            "runtime_families": extra_info, "build_seconds": round(t_build, 1),
            "extraction_spot_check": {"cases_evaluated_inside_coq": spot_n, "mismatches": len(spot_mism)},
            "translator_sections_untied": untied,
            "translator_note": ("all groups of Generated.v were read from the current source" if not untied else
                                "the translator could not read %d group(s) of constants from the rewritten source; for them the values of the pinned source were used and the model/implementation correspondence (with its boundary inputs for exactly these constants) is the only tie" % len(untied)),
        },
        "assumptions": ["inputs are valid UTF-8 (guaranteed by &str)", "length of the input < 2^32",
                        "the dump printers of harness and driver print what the API returns"],
        "wall_s": round(wall, 2), "violations": violations,
    }
    rxlib.write_evidence(pid, ev)
    for l in lines_out:
        print(l)
    print("%s %s: %d cases, %d diffs, %d oracle failures, %d relation failures, %d runtime failures, %d proof problems, %.1fs"
          % (pid, tier, len(cases), len(diffs), len(failing), len(rel), len(extra_fails), len(proof_problems), wall))
    for p in proof_problems[:3]:
        print("  proof-side: " + p[:600].replace("\n", " | "))
    return 1 if violations else 0


def replay(path):
    o = json.load(open(path))
    cs = []
    if "case" in o:
        cs.append(o["case"])
    cs += o.get("cases", [])
    if "first_difference" in o:
        cs.append(o["first_difference"]["case"])
    if not cs:
        print(json.dumps(o, indent=1)[:3000])
        return 0
    with rxlib.Lock("build"):
        harness = rxlib.build_harness("release")
    cases = [Case(bytes.fromhex(c["input_hex"].rstrip(".")), c.get("flags", "nc"), c.get("allow_dtd", True), c.get("nodes_limit", U32MAX)) for c in cs]
    work = os.path.join(BUILD, "work-replay")
    impl = rxlib.run_sharded(harness, ["dump"], cases, work, "impl", nshards=1)
    model = rxlib.run_sharded(DRIVER, [], cases, work, "model", nshards=1) if os.path.exists(DRIVER) else {}
    for i, c in enumerate(cases):
        print("input:", repr(c.data.decode("utf-8", "replace"))[:500])
        print(" implementation:")
        for l in impl[i][:60]:
            print("   ", l)
        print(" model:")
        for l in (model.get(i) or [])[:60]:
            print("   ", l)
    return 0
