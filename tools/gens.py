"""Case generators.  Every random choice comes from one random.Random(seed); exhaustive
generators ignore the seed.  A generator returns a list of rxlib.Case; `meta` carries what the
oracle needs (expected values computed by the reference functions in spec.py)."""
import glob, itertools, os, random
from rxlib import Case, REPO, U32MAX
import spec

# ---------------------------------------------------------------------------------------------
# G-meta: all strings over the XML meta-character alphabet
# ---------------------------------------------------------------------------------------------
META = ["<", ">", "/", "!", "?", "-", "[", "]", "&", "#", ";", ":", "=", "'", '"', "x", "a", "1", " ", "\r"]


def g_meta(maxlen, embed=True, flags="", dtd=True):
    out = []
    for l in range(0, maxlen + 1):
        for w in itertools.product(META, repeat=l):
            s = "".join(w)
            out.append(Case(s, flags, dtd, meta={"gen": "meta"}))
            if embed and l > 0:
                out.append(Case("<r>" + s + "</r>", flags, dtd, meta={"gen": "meta-content"}))
                out.append(Case("<r a='" + s + "'/>", flags, dtd, meta={"gen": "meta-attr"}))
    return out


# ---------------------------------------------------------------------------------------------
# G-tokens: strings of structural tokens, with entity tables (among them unbalanced ones)
# ---------------------------------------------------------------------------------------------
TOKENS = ["<a>", "<b>", "</a>", "</b>", "<a/>", "t", "<!--c-->", "<?p?>", "<![CDATA[d]]>", "&e;", "&f;",
          "<b k='v'>", "<p:c xmlns:p='u'/>", "\r"]
ENTITY_TABLES = [
    "",
    "<!ENTITY e 'x'><!ENTITY f '<a/>'>",
    "<!ENTITY e '<b>y</b>'><!ENTITY f '&e;&e;'>",
    "<!ENTITY e '<b/></a>'><!ENTITY f '<b>'>",
    "<!ENTITY e '</a><a>'><!ENTITY f '<b a=\"1\"'>",
    "<!ENTITY e 'u<!--k-->v'><!ENTITY f '<a'>",
    "<!ENTITY f 'x'><!ENTITY e '&f;<b/></a>'>",
    "<!ENTITY f '<b x=\"&#9;\"/>'><!ENTITY e '&f;</b>'>",
]


def g_tokens(maxlen, flags="n", tables=None, wrap=True):
    out = []
    tabs = ENTITY_TABLES if tables is None else tables
    for ti, tab in enumerate(tabs):
        prolog = ("<!DOCTYPE a [" + tab + "]>") if tab else ""
        for l in range(1, maxlen + 1):
            for w in itertools.product(range(len(TOKENS)), repeat=l):
                if not tab and any(TOKENS[i] in ("&e;", "&f;") for i in w) and l > 2:
                    continue
                body = "".join(TOKENS[i] for i in w)
                out.append(Case(prolog + body, flags, True, meta={"gen": "tokens", "table": ti}))
                if wrap:
                    out.append(Case(prolog + "<a>" + body + "</a>", flags, True, meta={"gen": "tokens-wrapped", "table": ti}))
    return out


# ---------------------------------------------------------------------------------------------
# G-pieces: exhaustive piece sequences for character data (C04) and attribute values (C05)
# ---------------------------------------------------------------------------------------------
TEXT_ENTITIES = [("e0", ""), ("e1", "E"), ("e2", "\r"), ("e3", "\nE"), ("e4", "E\r"), ("e5", "p\r\nq"), ("e6", "&e1;\n"),
                 ("e7", "<![CDATA[y]]>"), ("e8", "<![CDATA[\r]]>w"), ("e9", "\ufeffv"), ("e10", "x&e1;")]   # values that START with a CDATA section: character data although they begin with '<'
# (source text, kind); kinds: lit, ref (character reference / predefined), cdata, ent
TEXT_PIECES = [("a", "lit"), ("\n", "lit"), ("\r", "lit"), ("\t", "lit"), ("\ufeff", "lit"),   # U+FEFF is an ordinary Char except at the very start of the input
               ("&#10;", "ref"), ("&#13;", "ref"), ("&#9;", "ref"), ("&#x41;", "ref"), ("&amp;", "ref"),
               ("<![CDATA[x]]>", "cdata"), ("<![CDATA[]]>", "cdata"), ("<![CDATA[\r]]>", "cdata"), ("<![CDATA[\n]]>", "cdata"),
               ("<![CDATA[\r\n]]>", "cdata")] + [("&%s;" % n, "ent") for n, _ in TEXT_ENTITIES]
TEXT_DTD = "<!DOCTYPE r [" + "".join("<!ENTITY %s '%s'>" % (n, v) for n, v in TEXT_ENTITIES) + "]>"


def g_pieces_text(maxlen, positions=(0, 1, 2)):
    out = []
    ents = dict(TEXT_ENTITIES)
    for l in range(1, maxlen + 1):
        for w in itertools.product(range(len(TEXT_PIECES)), repeat=l):
            src = "".join(TEXT_PIECES[i][0] for i in w)
            exp = spec.decode_text(src, ents)
            for pos in positions:
                if pos == 0:
                    doc = TEXT_DTD + "<r>" + src + "</r>"
                elif pos == 1:
                    doc = TEXT_DTD + "<r><a/>" + src + "<b/></r>"
                else:
                    doc = TEXT_DTD + "<r><!--c-->" + src + "<?p?></r>"
                out.append(Case(doc, "nc", True, meta={"gen": "pieces-text", "pos": pos, "src": src, "expect_text": exp}))
    return out


ATTR_ENTITIES = [("z", ""), ("t", "\t"), ("c", "\r\n&#10;"), ("n", "&t;\r"), ("d", "&#13;&#10;"), ("f", "\ufeffw"),
                 ("u", "&#xA0;&#x2003;&#x85;&#x2028;&#x3000;")]   # Unicode White_Space that is not XML white space: never normalised
ATTR_PIECES = ["a", " ", "\t", "\n", "\r", "&#9;", "&#10;", "&#13;", "&#x20;", "&amp;", "Q", "\ufeff",
               "&z;", "&t;", "&c;", "&n;", "&d;", "&f;", "&u;", "&#xA0;"]
ATTR_DTD = "<!DOCTYPE r [" + "".join('<!ENTITY %s "%s">' % (n, v) for n, v in ATTR_ENTITIES) + "]>"


def g_pieces_attr(maxlen):
    out = []
    ents = dict(ATTR_ENTITIES)
    for l in range(0, maxlen + 1):
        for w in itertools.product(range(len(ATTR_PIECES)), repeat=l):
            for q, other in (("'", '"'), ('"', "'")):
                src = "".join(other if ATTR_PIECES[i] == "Q" else ATTR_PIECES[i] for i in w)
                exp = spec.norm_attr(src, ents)
                doc = ATTR_DTD + "<r k=" + q + src + q + "/>"
                out.append(Case(doc, "c", True, meta={"gen": "pieces-attr", "src": src, "expect_attr": exp}))
    return out


def g_pieces_attr_in_entity(maxlen):
    """the same piece sequences as the value of an attribute of an element that itself comes from an entity's
    replacement text: the attribute literal is then replacement text, so referenced white space is normalised too"""
    out = []
    ents = dict(ATTR_ENTITIES)
    pieces = [x for x in ATTR_PIECES if x != "Q"]
    for l in range(0, maxlen + 1):
        for w in itertools.product(range(len(pieces)), repeat=l):
            src = "".join(pieces[i] for i in w)
            exp = spec.norm_attr(src, ents, depth=1)
            dtd = "<!DOCTYPE r [" + "".join('<!ENTITY %s "%s">' % (n, v) for n, v in ATTR_ENTITIES) + "<!ENTITY w \"<a k='" + src + "'/>\">]>"
            out.append(Case(dtd + "<r>&w;</r>", "c", True, meta={"gen": "pieces-attr-in-entity-element", "src": src, "expect_attr": exp}))
    return out


def g_pieces_attr_after(maxlen):
    """attribute piece sequences on an element that FOLLOWS other constructs in the same content: state left behind by
    text / entity expansion (depth counters, pending line ends, buffers) must not reach a later attribute"""
    out = []
    ents = dict(ATTR_ENTITIES)
    pieces = [x for x in ATTR_PIECES if x != "Q"] + ["&lt;", "&#60;", "&#x3C;y"]
    preludes = ["&z;", "&t;", "x&z;y", "&z;&z;", "<![CDATA[]]>", "&f;", "<b>&z;</b>", "<!--c-->&z;", "&#10;", "\r", "<b k2='&z;'/>", "&n;"]
    for l in range(1, maxlen + 1):
        for w in itertools.product(range(len(pieces)), repeat=l):
            src = "".join(pieces[i] for i in w)
            exp = spec.norm_attr(src, ents)
            for pre in preludes:
                if "k2=" in pre:
                    continue
                out.append(Case(ATTR_DTD + "<r>" + pre + "<e k='" + src + "'/></r>", "c", True,
                                meta={"gen": "pieces-attr-after", "src": src, "prelude": pre, "expect_attr": exp}))
    return out


# entity names that start with, or are a prefix of, a predefined name (lt gt amp apos quot): a declared entity all the same
LOOKALIKE_NAMES = ["lt2", "lte", "ltt", "gt1", "gte", "amp2", "ampersand", "quot2", "quote", "apos2", "apostrophe", "l", "g", "am",
                   "quo", "apo", "lt.", "gt-", "amp_", "LT", "Amp"]


def g_entity_names():
    out = []
    tab = [(n, "[%s]" % n) for n in LOOKALIKE_NAMES]
    ents = dict(tab)
    dtd = "<!DOCTYPE r [" + "".join("<!ENTITY %s '%s'>" % (n, v) for n, v in tab) + "]>"
    for n in LOOKALIKE_NAMES:
        for src in ("&%s;" % n, "1&lt;&%s;&amp;" % n, "&%s;&%s;&gt;" % (n, n)):
            out.append(Case(dtd + "<r>" + src + "</r>", "nc", True, meta={"gen": "lookalike-name-text", "src": src, "expect_text": spec.decode_text(src, ents)}))
            out.append(Case(dtd + "<r k='" + src + "'/>", "c", True, meta={"gen": "lookalike-name-attr", "src": src, "expect_attr": spec.norm_attr(src, ents)}))
    return out


# ---------------------------------------------------------------------------------------------
# fixtures, prefixes, mutations
# ---------------------------------------------------------------------------------------------
def fixture_files(max_bytes=4096, benches=False):
    files = sorted(glob.glob(os.path.join(REPO, "tests", "files", "*.xml")))
    if benches:
        files += sorted(glob.glob(os.path.join(REPO, "benches", "*.xml"))) + sorted(glob.glob(os.path.join(REPO, "benches", "*.svg"))) + sorted(glob.glob(os.path.join(REPO, "benches", "*.plist")))
    out = []
    for p in files:
        d = open(p, "rb").read()
        try:
            d.decode("utf-8")
        except UnicodeDecodeError:
            continue
        if len(d) > max_bytes:
            d = d[:max_bytes]
            while True:
                try:
                    d.decode("utf-8")
                    break
                except UnicodeDecodeError:
                    d = d[:-1]
        out.append((os.path.basename(p), d))
    return out


def g_fixtures(flags="", dtd=True, benches=False):
    return [Case(d, flags, dtd, meta={"gen": "fixture", "file": n}) for n, d in fixture_files(benches=benches)]


def utf8_prefixes(d, step=1):
    out = []
    for i in range(0, len(d), step):
        try:
            d[:i].decode("utf-8")
            out.append(d[:i])
        except UnicodeDecodeError:
            pass
    return out


def g_prefixes(flags="", dtd=True, max_len=400, step=1):
    out = []
    for n, d in fixture_files():
        if len(d) > max_len:
            continue
        for p in utf8_prefixes(d, step):
            out.append(Case(p, flags, dtd, meta={"gen": "prefix", "file": n, "cut": len(p)}))
    return out


MUT_TOKENS = [b"<", b">", b"/", b"&", b";", b"'", b'"', b"=", b" ", b"\r", b"\n", b"<a>", b"</a>", b"&#65;", b"&lt;",
              b"<!--", b"-->", b"<![CDATA[", b"]]>", b"<?", b"?>", b"xmlns", b":", b"\xc3\xa9", b"<!DOCTYPE", b"<!ENTITY", b"&e;"]


def g_mutations(seed, n, flags="", dtd=True, max_len=600):
    rnd = random.Random(seed)
    base = [d for _, d in fixture_files() if len(d) <= max_len]
    out = []
    while len(out) < n:
        d = bytearray(rnd.choice(base))
        for _ in range(rnd.randint(1, 3)):
            op = rnd.randint(0, 3)
            pos = rnd.randint(0, len(d))
            if op == 0 and len(d) > 0:
                ln = rnd.randint(1, 4)
                del d[pos:pos + ln]
            elif op == 1:
                d[pos:pos] = rnd.choice(MUT_TOKENS)
            elif op == 2 and len(d) > 0:
                a = rnd.randint(0, len(d))
                b2 = min(len(d), a + rnd.randint(1, 12))
                d[pos:pos] = d[a:b2]
            else:
                if len(d) > 0:
                    p2 = min(len(d) - 1, pos)
                    d[p2:p2 + 1] = rnd.choice(MUT_TOKENS)
        try:
            bytes(d).decode("utf-8")
        except UnicodeDecodeError:
            continue
        out.append(Case(bytes(d), flags, dtd, meta={"gen": "mutation"}))
    return out


def g_nonchar(flags=""):
    out = []
    bad = ["\x01", "\x0b", "\x1f", "\ufffe", "\uffff"]
    pre = ["", "a", "\u00e9", "\u4e2d", "\U0001f600", "\u00e9\u4e2d\U0001f600", "\u0440", "\u2013"]
    ctx = [("<r a=\"%s\"/>", "attribute value"), ("<r a='%s'/>", "attribute value"), ("<r>%s</r>", "text"), ("<r><!--%s--></r>", "comment"),
           ("<r><?p %s?></r>", "PI"), ("<r><![CDATA[%s]]></r>", "CDATA"), ("<!DOCTYPE r [<!ENTITY e '%s'>]><r/>", "entity value"),
           ("<!DOCTYPE r [<!ENTITY e \"%s\">]><r>&e;</r>", "entity value"), ("<%s/>", "name"), ("<r %s='v'/>", "attribute name")]
    for c, why in ctx:
        for p in pre:
            for b2 in bad:
                for suffix in ("", "z"):
                    out.append(Case(c % (p + b2 + suffix), flags, True, meta={"gen": "nonchar", "illformed": "non-Char in " + why}))
    return out


# documents where one URI is bound to several prefixes and equal attributes are reached through each
def g_same_uri(flags="ncl"):
    docs = [
        "<e xmlns:a='urn:same' xmlns:b='urn:same'><x a:k='v'/><y b:k='v'/><z a:k='w' b:j='v'/></e>",
        "<e xmlns='urn:same' xmlns:p='urn:same'><c xmlns='urn:same' p:k='v' k='v'/><p:d k='v'/></e>",
        "<e xmlns:p='urn:same'><c xmlns='urn:same'><d xmlns:q='urn:same' q:k='v' p:j='v'/></c><p:c p:k='v'/></e>",
        "<e xmlns:a='u' xmlns:b='u' xmlns:c='v'><x a:k='1' c:k='1'/><y b:k='1' k='1'/></e>",
    ]
    return [Case(d, flags, True, meta={"gen": "same-uri-two-prefixes"}) for d in docs]


# ---------------------------------------------------------------------------------------------
# G-ent: entity graphs
# ---------------------------------------------------------------------------------------------
def ent_doc(decls, body):
    return "<!DOCTYPE r [" + "".join("<!ENTITY %s '%s'>" % (n, v) for n, v in decls) + "]>" + body


def g_ent_cycles(maxlen=32, flags=""):
    out = []
    for l in range(1, maxlen + 1):
        decls = [("c%d" % i, "x&c%d;" % ((i + 1) % l)) for i in range(l)]
        out.append(Case(ent_doc(decls, "<r>&c0;</r>"), flags, True, meta={"gen": "cycle-text", "len": l, "expect": "EntityReferenceLoop"}))
        out.append(Case(ent_doc(decls, "<r a='&c0;'/>"), flags, True, meta={"gen": "cycle-attr", "len": l, "expect": "EntityReferenceLoop"}))
        decls2 = decls + [("w", "<i a=\"&c0;\"/>")]
        out.append(Case(ent_doc(decls2, "<r>&w;</r>"), flags, True, meta={"gen": "cycle-attr-in-entity", "len": l, "expect": "EntityReferenceLoop"}))
        # the cycle passes through elements whose attributes need normalisation (TAB reference / entity)
        decls3 = [("k%d" % i, "<b x=\"&#9;\" y=\"&v;\"/>&k%d;" % ((i + 1) % l)) for i in range(l)] + [("v", "w")]
        out.append(Case(ent_doc(decls3, "<r>&k0;</r>"), flags, True, meta={"gen": "cycle-through-attr-elements", "len": l, "expect": "EntityReferenceLoop"}))
        # the back reference sits inside an element the entity value opens: the loop error must win over the
        # "element not closed inside the entity" error of every enclosing level
        decls4 = [("o%d" % i, "<x>&o%d;</x>" % ((i + 1) % l)) for i in range(l)]
        out.append(Case(ent_doc(decls4, "<r>&o0;</r>"), flags, True, meta={"gen": "cycle-inside-open-element", "len": l, "expect": "EntityReferenceLoop"}))
        decls5 = [("p%d" % i, "t<x a=\"1\">u&p%d;" % ((i + 1) % l)) for i in range(l)]
        out.append(Case(ent_doc(decls5, "<r>&p0;</r>"), flags, True, meta={"gen": "cycle-inside-unclosed-element", "len": l, "expect": "EntityReferenceLoop"}))
        # re-declarations: the FIRST declaration binds.  A cycle whose closing edge is re-declared harmlessly is still
        # a cycle; a harmless chain followed by a re-declaration that would close a cycle is still harmless.
        for use, body in (("text", "<r>&c0;</r>"), ("attr", "<r a='&c0;'/>")):
            out.append(Case(ent_doc(decls + [("c%d" % (l - 1), "ok")], body), flags, True,
                            meta={"gen": "cycle-redeclared-" + use, "len": l, "expect": "EntityReferenceLoop"}))
            if l <= 9:
                chain = [("c%d" % i, "x&c%d;" % (i + 1)) for i in range(l)] + [("c%d" % l, "end")]
                out.append(Case(ent_doc(chain + [("c%d" % l, "&c0;")], body), flags, True,
                                meta={"gen": "chain-redeclared-" + use, "len": l, "expect": "ok", "expect_value": "x" * l + "end"}))
    return out


def g_ent_fanout(fs, ds, flags=""):
    """entity level i = f references to level i-1; level 0 = 'z'.  Expanded length f^d."""
    out = []
    for f in fs:
        for d in ds:
            decls = [("l0", "z")] + [("l%d" % i, ("&l%d;" % (i - 1)) * f) for i in range(1, d + 1)]
            # number of expansions below the top-level reference: f + f^2 + ... + f^d ; depth d+1
            nested = sum(f ** k for k in range(1, d + 1))
            ok = (d + 1 <= 10) and (nested <= 255)
            exp_len = f ** d
            for use in ("text", "attr"):
                body = "<r>&l%d;</r>" % d if use == "text" else "<r a='&l%d;'/>" % d
                out.append(Case(ent_doc(decls, body), flags, True,
                                meta={"gen": "fanout-" + use, "f": f, "d": d, "expect": "ok" if ok else "EntityReferenceLoop", "expect_len": exp_len if ok else None}))
    return out


def g_ent_fanout_attr_leaf(fs, ds, flags=""):
    """billion laughs whose leaf is an element with an attribute that references an entity"""
    out = []
    for f in fs:
        for d in ds:
            decls = [("v", "x" * 20), ("l0", "<e a=\"&v;\"/>")] + [("l%d" % i, ("&l%d;" % (i - 1)) * f) for i in range(1, d + 1)]
            # below the top-level reference: f + .. + f^d references to l*, plus one &v; per leaf (f^d)
            nested = sum(f ** k for k in range(1, d + 1)) + f ** d
            ok = (d + 2 <= 10) and (nested <= 255)
            out.append(Case(ent_doc(decls, "<r>&l%d;</r>" % d), flags, True,
                            meta={"gen": "fanout-attr-leaf", "f": f, "d": d, "expect": "ok" if ok else "EntityReferenceLoop",
                                  "expect_len": 20 * f ** d if ok else None}))
    return out


def g_ent_chains(maxd=14, flags=""):
    out = []
    for d in range(1, maxd + 1):
        decls = [("k0", "z")] + [("k%d" % i, "a&k%d;b" % (i - 1)) for i in range(1, d)]
        ok = d <= 10
        exp = "a" * (d - 1) + "z" + "b" * (d - 1)
        for use in ("text", "attr"):
            body = "<r>&k%d;</r>" % (d - 1) if use == "text" else "<r a='&k%d;'/>" % (d - 1)
            out.append(Case(ent_doc(decls, body), flags, True,
                            meta={"gen": "chain-" + use, "depth": d, "expect": "ok" if ok else "EntityReferenceLoop", "expect_value": exp if ok else None}))
    return out


def g_ent_toplevel(n, flags=""):
    decls = [("e", "ab"), ("g", "&e;&e;")]
    big = n > 3000
    return [Case(ent_doc(decls, "<r>" + "&g;" * n + "</r>"), flags, True, meta={"gen": "toplevel-text", "n": n, "expect": "ok", "expect_len": 4 * n, "impl_only": big}),
            Case(ent_doc(decls, "<r a='" + "&g;" * n + "'/>"), flags, True, meta={"gen": "toplevel-attr", "n": n, "expect": "ok", "expect_len": 4 * n, "impl_only": big})]


def g_ent_empty(flags=""):
    """references to an entity with an empty value, many times, followed by other references"""
    out = []
    decls = [("z", ""), ("e", "v"), ("w", "<i a=\"&lt;\"/>")]
    for k in (1, 2, 9, 10, 11, 12, 30):
        out.append(Case(ent_doc(decls, "<r>" + "&z;" * k + "&e;</r>"), flags, True, meta={"gen": "empty-entity-text", "k": k, "expect": "ok", "expect_value": "v"}))
        out.append(Case(ent_doc(decls, "<r a='" + "&z;" * k + "&e;'/>"), flags, True, meta={"gen": "empty-entity-attr", "k": k, "expect": "ok", "expect_value": "v"}))
        out.append(Case(ent_doc(decls, "<r>" + "&z;" * k + "<i a='&lt;'/>&#13;</r>"), flags, True, meta={"gen": "empty-entity-then-refs", "k": k, "expect": "ok"}))
    return out


def g_ent_random(seed, n, flags=""):
    rnd = random.Random(seed)
    out = []
    for _ in range(n):
        k = rnd.randint(1, 7)
        decls = []
        for i in range(k):
            parts = []
            for _ in range(rnd.randint(0, 4)):
                r = rnd.random()
                if r < 0.5:
                    parts.append("&n%d;" % rnd.randint(0, k - 1))
                elif r < 0.8:
                    parts.append(rnd.choice(["x", "yz", " "]))
                else:
                    parts.append(rnd.choice(["<i/>", "<i>t</i>", "<!--c-->"]))
            decls.append(("n%d" % i, "".join(parts)))
        use = rnd.choice(["text", "attr"])
        body = "<r>&n0;</r>" if use == "text" else "<r a='&n0;'/>"
        out.append(Case(ent_doc(decls, body), flags, True, meta={"gen": "entgraph-" + use}))
    return out


# ---------------------------------------------------------------------------------------------
# G-long: repeated constructs with counts around powers of two (thresholds, caches, fast paths)
# ---------------------------------------------------------------------------------------------
COUNTS = [2, 3, 7, 8, 9, 15, 16, 17, 31, 32, 33, 34, 63, 64, 65, 127, 128, 129, 255, 256, 257, 300]


def g_long(flags="nc", counts=None):
    out = []
    ks = counts or COUNTS
    dtd = "<!DOCTYPE r [<!ENTITY e 'y'><!ENTITY m '<i/>'><!ENTITY z ''>]>"
    for k in ks:
        exp_cd = "x" * k
        fams = [
            ("cdata-run", "<r>" + "<![CDATA[x]]>" * k + "</r>", "x" * k),
            ("text-entity-run", dtd + "<r>" + "a&e;" * k + "</r>", "ay" * k),
            ("text-ref-run", "<r>" + "a&#66;" * k + "</r>", "aB" * k),
            ("text-cdata-alternating", "<r>" + "t<![CDATA[c]]>" * k + "</r>", "tc" * k),
            ("empty-entity-run", dtd + "<r>" + "&z;" * k + "q</r>", "q"),
            ("crlf-run", "<r>" + "a\r\n" * k + "</r>", "a\n" * k),
        ]
        for name, doc, text in fams:
            out.append(Case(doc, flags, True, meta={"gen": "long-" + name, "k": k, "expect_content": ["Q 1 - x72", "X 2 " + spec.hexs(text)]}))
        out.append(Case("<r>" + "<a/>" * k + "</r>", flags, True, meta={"gen": "long-siblings", "k": k}))
        out.append(Case("<r>" + "<a>" * k + "</a>" * k + "</r>", flags, True, meta={"gen": "long-nesting", "k": k}))
        out.append(Case(dtd + "<r>" + "&m;t" * k + "</r>", flags, True, meta={"gen": "long-entity-elements", "k": k}))
        out.append(Case("<r " + " ".join("a%d='v%d'" % (i, i) for i in range(k)) + "/>", flags, True, meta={"gen": "long-attributes", "k": k}))
        out.append(Case("<r " + " ".join("xmlns:p%d='u%d'" % (i, i) for i in range(k)) + "><p%d:x/></r>" % (k - 1), flags, True, meta={"gen": "long-ns-decls", "k": k}))
        # a child that declares one namespace of its own under a parent with k namespaces in scope: the inherited ones keep their order
        out.append(Case("<r " + " ".join("xmlns:p%d='u%d'" % (i, i) for i in range(k)) + "><c xmlns:q='v' xmlns:p1='w'><p0:x/></c></r>", flags, True, meta={"gen": "long-ns-inherit", "k": k}))
        # many attributes, two of which share a local name in different namespaces (source order must be kept)
        attrs = ["zz%d='v%d'" % (k - i, i) for i in range(k)]
        attrs.insert(k // 2, "p:zz1='w'")
        e = spec.Elem("", "r", [("p" if a.startswith("p:") else "", a.split("=")[0].split(":")[-1], a.split("'")[1]) for a in attrs], [("p", "u")], [])
        out.append(Case("<r xmlns:p='u' " + " ".join(attrs) + "/>", flags, True,
                        meta={"gen": "long-attributes-shared-local", "k": k, "expect_content": spec.expected_content(e)}))
        # k top-level references (in k different elements) to an entity that itself contains a nested reference:
        # the budget of nested references is per top-level reference, not per document
        ndtd = "<!DOCTYPE r [<!ENTITY mark '<m/>'><!ENTITY cell '<i>&mark;</i><!--end-->'>]>"
        out.append(Case(ndtd + "<r>" + "<row>&cell;</row>" * k + "</r>", flags, True, meta={"gen": "long-nested-entity-rows", "k": k, "wellformed": "nested references in %d separate elements" % k}))
        # the same expanded name twice, through two prefixes bound to one URI, far apart in a long list: a duplicate
        dup = ["a:x='1'"] + ["y%d='v'" % i for i in range(k)] + ["b:x='2'"]
        out.append(Case("<r xmlns:a='urn:same' xmlns:b='urn:same' " + " ".join(dup) + "/>", flags, True,
                        meta={"gen": "long-attributes-dup-expanded", "k": k, "illformed": "duplicate attribute by expanded name (two prefixes, one URI) in a list of %d" % (k + 2)}))
        dup2 = ["y%d='v'" % i for i in range(k)] + ["x='1'", "x='2'"]
        out.append(Case("<r " + " ".join(dup2) + "/>", flags, True,
                        meta={"gen": "long-attributes-dup", "k": k, "illformed": "duplicate attribute at the end of a list of %d" % (k + 2)}))
        out.append(Case("<r>" + "<!--c-->" * k + "<?p v?>" * k + "</r>", flags, True, meta={"gen": "long-misc", "k": k}))
        out.append(Case("<" + "n" * k + " " + "a" * k + "='" + "v" * k + "'>" + "t" * k + "</" + "n" * k + ">", flags, True, meta={"gen": "long-names", "k": k}))
        out.append(Case("<r a='" + "x&#32;" * k + "' b='" + " \t" * k + "'/>", flags, True, meta={"gen": "long-attr-value", "k": k}))
    return out


def g_long_nonascii(flags="", totals=(127, 128, 255, 256, 511, 512, 513, 1024, 4096, 65535, 65536)):
    """long NON-ASCII strings in every string position, arranged so that a multi-byte character straddles every
    byte offset that is a power of two (or one off): fixed-offset slicing of such a string is not on a boundary"""
    out = []
    for total in totals:
        for off in (0, 1):
            for ch in ("\u00e9", "\u20ac", "\U0001F600"):
                body = "a" * off + ch * (total // len(ch.encode()) + 4)
                name = "n" * off + "\u00e9" * (total // 2 + 4)
                meta = {"gen": "long-nonascii", "total": total, "off": off}
                out.append(Case("<e>" + body + "</e>", flags, True, meta=dict(meta, where="text")))
                out.append(Case("<e><!--" + body + "--><?p " + body + "?></e>", flags, True, meta=dict(meta, where="comment-pi")))
                out.append(Case("<e k='" + body + "' j='&#9;" + body + "'/>", flags, True, meta=dict(meta, where="attr-value")))
                out.append(Case("<e><![CDATA[" + body + "]]>&amp;" + body + "</e>", flags, True, meta=dict(meta, where="cdata-merged")))
            out.append(Case("<e " + name + "='v' x" + name + "  =  'w'/>", flags, True, meta={"gen": "long-nonascii", "total": total, "off": off, "where": "attr-name"}))
            out.append(Case("<" + name + "></" + name + ">", flags, True, meta={"gen": "long-nonascii", "total": total, "off": off, "where": "tag-name"}))
    return out


def g_ent_nested_elems(flags="nc"):
    """entities whose replacement text holds elements that contain further references, two and three levels deep,
    used once, twice, inside other elements and in attribute values of elements inside entities"""
    E, T = spec.Elem, spec.Text
    dtd = ("<!DOCTYPE r [<!ENTITY e1 'x'><!ENTITY e2 '<p>&e1;</p>'><!ENTITY e3 '<q a=\"&e1;\">&e2;t&e1;</q>'>"
           "<!ENTITY e4 'u&e2;v<s/>'><!ENTITY e5 '<w>&e3;</w>&e2;'>]>")

    def p():
        return E("", "p", [], [], [T("x")])

    def q():
        return E("", "q", [("", "a", "x")], [], [p(), T("tx")])
    bodies = [
        ("&e2;", [p()]), ("&e2;&e2;", [p(), p()]), ("a&e2;b", [T("a"), p(), T("b")]),
        ("&e3;", [q()]), ("<z>&e3;</z>&e2;", [E("", "z", [], [], [q()]), p()]),
        ("&e4;", [T("u"), p(), T("v"), E("", "s", [], [], [])]), ("&e4;&e4;", [T("u"), p(), T("v"), E("", "s", [], [], []), T("u"), p(), T("v"), E("", "s", [], [], [])]),
        ("&e5;", [E("", "w", [], [], [q()]), p()]), ("<z k='&e1;'>&e5;&e1;</z>", [E("", "z", [("", "k", "x")], [], [E("", "w", [], [], [q()]), p(), T("x")])]),
    ]
    out = []
    for src, kids in bodies:
        root = E("", "r", [], [], kids)
        out.append(Case(dtd + "<r>" + src + "</r>", flags, True, meta={"gen": "ent-nested-elems", "body": src, "expect_content": spec.expected_content(root)}))
    return out


# ---------------------------------------------------------------------------------------------
# G-ns: exhaustive small namespace scoping documents (C06)
# ---------------------------------------------------------------------------------------------
NS_DECLS = [None, ("", "u"), ("", "v"), ("", ""), ("p", "u"), ("p", "v"), ("q", "u")]
NS_PREFIXES = ["", "p", "q", "xml"]


def tree_shapes(n):
    """all ordered trees with n nodes as nested lists"""
    if n == 1:
        return [[]]
    out = []
    # forests with n-1 nodes
    def forests(m):
        if m == 0:
            return [[]]
        res = []
        for k in range(1, m + 1):
            for t in tree_shapes(k):
                for rest in forests(m - k):
                    res.append([t] + rest)
        return res
    return forests(n - 1)


def g_ns(max_elems, flags="c", with_attr=True):
    out = []
    for n in range(1, max_elems + 1):
        for shape in tree_shapes(n):
            choices = list(itertools.product(range(len(NS_DECLS)), range(len(NS_PREFIXES))))
            for assign in itertools.product(choices, repeat=n):
                it = iter(assign)

                def build(sh):
                    di, pi = next(it)
                    return spec.Elem(NS_PREFIXES[pi], "e", [], [NS_DECLS[di]] if NS_DECLS[di] else [], [build(c) for c in sh])
                root = build(shape)
                doc = spec.render_plain(root)
                exp = spec.expected_content(root)
                out.append(Case(doc, flags, True, meta={"gen": "ns-tree", "expect_content": exp}))
    # pairs of declarations on one or two elements, and a prefixed attribute
    decls = [d for d in NS_DECLS if d]
    for d1 in decls:
        for d2 in decls:
            for pi in NS_PREFIXES:
                for api in ["", "p", "q", "xml"]:
                    attrs = [(api, "k", "1")] if with_attr else []
                    root = spec.Elem(pi, "e", attrs, [d1, d2], [])
                    out.append(Case(spec.render_plain(root), flags, True, meta={"gen": "ns-pair", "expect_content": spec.expected_content(root)}))
                    root = spec.Elem("", "o", [], [d1], [spec.Elem(pi, "e", attrs, [d2], [])])
                    out.append(Case(spec.render_plain(root), flags, True, meta={"gen": "ns-nested", "expect_content": spec.expected_content(root)}))
    return out


def g_ns_attr(flags="c", sample=None, seed=1):
    """3-element trees (chain and siblings) x per element {declaration, tag prefix, prefixed attribute} x
    {no child, first child, second child written through an entity}: scopes that interact with attributes,
    empty-element tags and entity boundaries"""
    decls = [None, ("p", "u1"), ("p", "u2"), ("", "u1")]
    per = list(itertools.product(range(len(decls)), ["", "p"], [None, "p"]))
    out = []
    for shape in tree_shapes(3):
        for assign in itertools.product(per, repeat=3):
            for hoisted in (None, 1, 2):
                it = iter(assign)
                elems = []

                def build(sh):
                    di, pi, ai = next(it)
                    e = spec.Elem(pi, "e%d" % len(elems), [(ai, "k", "1")] if ai is not None else [],
                                  [decls[di]] if decls[di] else [], [])
                    elems.append(e)
                    e.children = [build(c) for c in sh]
                    return e
                root = build(shape)
                exp = spec.expected_content(root)
                if hoisted is None:
                    doc = spec.render_plain(root)
                else:
                    target = elems[hoisted]
                    inner = spec.render_plain(target)

                    def rp(e):
                        if e is target:
                            return "&h;"
                        t = "<" + spec.qname(e.prefix, e.local)
                        for p_, u in e.decls:
                            t += " xmlns%s='%s'" % ((":" + p_) if p_ else "", u)
                        for p_, l, v in e.attrs:
                            t += " %s='%s'" % (spec.qname(p_, l), v)
                        if not e.children:
                            return t + "/>"
                        return t + ">" + "".join(rp(c) for c in e.children) + "</" + spec.qname(e.prefix, e.local) + ">"
                    doc = "<!DOCTYPE e0 [<!ENTITY h \"" + inner + "\">]>" + rp(root)
                out.append(Case(doc, flags, True, meta={"gen": "ns-attr-tree", "hoisted": hoisted, "expect_content": exp}))
    if sample is not None and sample < len(out):
        out = random.Random(seed).sample(out, sample)
    return out


# ---------------------------------------------------------------------------------------------
# G-cst: random abstract documents rendered with random layout (C03..C07, C13, C18 ...)
# ---------------------------------------------------------------------------------------------
def g_cst(seed, n, flags="nc", renderings=1, size=12, hoist=False, doctype_free=False, non_ascii=True):
    rnd = random.Random(seed)
    out = []
    for k in range(n):
        doc = spec.random_document(rnd, size=rnd.randint(1, size), non_ascii=non_ascii, doctype_free=doctype_free)
        exp = spec.expected_content(doc.root, doc)
        for r in range(renderings):
            txt, rr = spec.render(doc, rnd, hoist=hoist and r > 0)
            out.append(Case(txt, flags, True, meta={"gen": "cst", "doc": k, "rendering": r, "expect_content": exp,
                                                    "hoisted": len(rr.entities), "d15": rr.d15}))
    return out


# ---------------------------------------------------------------------------------------------
# entity values cut at every byte: the sub-stream of an entity value ends in the middle of every construct
# (the byte after the value is the closing quote of the declaration's literal)
# ---------------------------------------------------------------------------------------------
ENT_VALUE_SAMPLES = [
    "<b c=\"v\" d = \"w&#65;&amp;\">t&#x42;&lt;<!--c--><?p v?><![CDATA[x]]>&amp;&#65;</b >u",
    "<p:b xmlns:p=\"u\" p:c=\"1\" xmlns=\"d\"><c/></p:b><!-- - --><?q?>",
    "a&#9;&#xA;&n;<i x=\"&n;\"/>]]",
]


def g_entity_value_prefixes(flags=""):
    out = []
    for sample in ENT_VALUE_SAMPLES:
        for quote, s in (("'", sample), ('"', sample.replace('"', "'"))):
            for i in range(len(s) + 1):
                v = s[:i]
                decl = "<!ENTITY n \"k\"><!ENTITY e %s%s%s><!ENTITY f %s&e;%s>" % (quote, v, quote, quote, quote)
                for use, body in (("content", "<r>&e;</r>"), ("content-tail", "<r>&e;z</r>"), ("nested", "<r>&f;</r>"),
                                  ("attr", "<r a=\"&e;\"/>"), ("attr-in-entity-elem", "<r>&e;<s t=\"&e;\"/></r>")):
                    out.append(Case("<!DOCTYPE r [" + decl + "]>" + body, flags, True,
                                    meta={"gen": "entity-value-prefix", "use": use, "cut": i, "quote": quote}))
    return out


# ---------------------------------------------------------------------------------------------
# numeric character references around every width: more digits than u32 / u64 hold, leading zeros, empty
# ---------------------------------------------------------------------------------------------
def g_big_charrefs(flags=""):
    vals = [0, 1, 9, 0x41, 0xD7FF, 0xD800, 0xFFFE, 0x10FFFF, 0x110000, 2**31 - 1, 2**31, 2**32 - 1, 2**32, 2**32 + 0x41,
            2**33, 2**63, 2**64 - 1, 2**64, 2**64 + 0x41, 10**20, 10**40]
    refs = ["&#;", "&#x;", "&#xG;", "&#-1;", "&#+65;", "&# 65;", "&#65 ;", "&#x 41;", "&#X41;"]
    for v in vals:
        refs += ["&#%d;" % v, "&#x%x;" % v, "&#x%X;" % v, "&#%s%d;" % ("0" * 12, v), "&#x%s%x;" % ("0" * 20, v)]
    out = []
    for r in refs:
        for use, doc in (("text", "<r>a%sb</r>" % r), ("attr", "<r a='x%sy'/>" % r), ("ns-uri", "<r xmlns:p='u%s'/>" % r),
                         ("entity-text", "<!DOCTYPE r [<!ENTITY e \"v%sw\">]><r>&e;</r>" % r),
                         ("entity-attr", "<!DOCTYPE r [<!ENTITY e \"v%sw\">]><r a='&e;'/>" % r),
                         ("entity-elem-attr", "<!DOCTYPE r [<!ENTITY e \"<i a='%s'/>\">]><r>&e;</r>" % r),
                         ("entity-unused", "<!DOCTYPE r [<!ENTITY e \"v%sw\">]><r/>" % r)):
            out.append(Case(doc, flags, True, meta={"gen": "charref-width", "use": use, "ref": r}))
    return out


def g_ent_charrefs_free(flags="c"):
    """character and predefined references are not entity expansions: any number of them inside entity values --
    in text, in attribute values, in attributes of elements inside entities -- never triggers the loop guard"""
    out = []
    refs = [("&#x41;", "A"), ("&#66;", "B"), ("&amp;", "&"), ("&apos;", "'"), ("&gt;", ">")]
    for ref, ch in refs:
        for k in (254, 255, 256, 300, 700):
            decls = [("e", ref.replace("&", "&#38;") * 0 + ref * k)]
            out.append(Case(ent_doc_dq(decls, "<r>&e;</r>"), flags, True,
                            meta={"gen": "charrefs-free-text", "k": k, "ref": ref, "expect": "ok", "expect_value": ch * k}))
            out.append(Case(ent_doc_dq(decls, "<r a='&e;'/>"), flags, True,
                            meta={"gen": "charrefs-free-attr", "k": k, "ref": ref, "expect": "ok", "expect_value": ch * k}))
            decls2 = [("w", "<i a='" + ref * k + "'/>")]
            out.append(Case(ent_doc_dq(decls2, "<r>&w;</r>"), flags, True,
                            meta={"gen": "charrefs-free-attr-in-entity-element", "k": k, "ref": ref, "expect": "ok", "expect_value": ch * k}))
    # entity references within the budget, each leaf carrying character references as well
    for n in (100, 200, 255):
        for use in ("text", "attr"):
            decls = [("l", "&#x41;&amp;"), ("e", "&l;" * (n - 1 if n == 255 else n))]
            body = "<r>&e;</r>" if use == "text" else "<r a='&e;'/>"
            cnt = n - 1 if n == 255 else n
            out.append(Case(ent_doc_dq(decls, body), flags, True,
                            meta={"gen": "charrefs-free-leaves-" + use, "n": cnt, "expect": "ok", "expect_value": "A&" * cnt}))
    return out


def ent_doc_dq(decls, body):
    return "<!DOCTYPE r [" + "".join("<!ENTITY %s \"%s\">" % (n, v) for n, v in decls) + "]>" + body



# ---------------------------------------------------------------------------------------------
# declarations that compete for a name: re-declarations (the first binds), parameter entities of the same name,
# and the five predefined names declared in the form XML 1.0 section 4.6 prescribes
# ---------------------------------------------------------------------------------------------
def g_ent_competing(flags="nc"):
    out = []
    # several names, some declared twice with different literals, in an order that is not the sorted one
    decls = [("m", "M1"), ("b", "B1"), ("z", "Z1"), ("b", "B2"), ("a", "A1"), ("m", "M2"), ("a", "A2"), ("zz", "&b;|&m;"), ("b", "B3")]
    dtd = "<!DOCTYPE r [" + "".join("<!ENTITY %s '%s'>" % d for d in decls) + "]>"
    first = {}
    for n, v in decls:
        first.setdefault(n, v)
    for n in ("m", "b", "z", "a"):
        out.append(Case(dtd + "<r k='x&%s;y'>p&%s;q</r>" % (n, n), flags, True,
                        meta={"gen": "redeclared-first-binds", "name": n,
                              "expect_content": ["Q 1 - x72", "A 1 0 - x6b " + spec.hexs("x" + first[n] + "y"), "X 2 " + spec.hexs("p" + first[n] + "q")]}))
    out.append(Case(dtd + "<r k='&zz;'>&zz;</r>", flags, True,
                    meta={"gen": "redeclared-first-binds-nested",
                          "expect_content": ["Q 1 - x72", "A 1 0 - x6b " + spec.hexs("B1|M1"), "X 2 " + spec.hexs("B1|M1")]}))
    # a parameter entity never binds a general name, whatever the order
    for order in (0, 1):
        ds = ["<!ENTITY % v \"pe text\">", "<!ENTITY v 'a b'>"]
        if order:
            ds.reverse()
        out.append(Case("<!DOCTYPE r [" + "".join(ds) + "]><r k='&v;'>&v;</r>", flags, True,
                        meta={"gen": "pe-vs-ge", "order": order,
                              "expect_content": ["Q 1 - x72", "A 1 0 - x6b " + spec.hexs("a b"), "X 2 " + spec.hexs("a b")]}))
    out.append(Case("<!DOCTYPE r [<!ENTITY % v 'pe'>]><r k='&v;'/>", flags, True, meta={"gen": "pe-only", "illformed": "reference to a name declared only as a parameter entity"}))
    out.append(Case("<!DOCTYPE r [<!ENTITY % v 'pe'>]><r>&v;</r>", flags, True, meta={"gen": "pe-only", "illformed": "reference to a name declared only as a parameter entity"}))
    # the predefined entities declared as section 4.6 prescribes: references still denote the five characters
    pre = ("<!ENTITY lt \"&#38;#60;\"><!ENTITY gt \"&#62;\"><!ENTITY amp \"&#38;#38;\"><!ENTITY apos \"&#39;\"><!ENTITY quot \"&#34;\">")
    out.append(Case("<!DOCTYPE r [" + pre + "]><r k='1&lt;2&amp;3&gt;4&apos;5&quot;6'>a&lt;b&amp;c&gt;d&apos;e&quot;f</r>", flags, True,
                    meta={"gen": "predefined-declared",
                          "expect_content": ["Q 1 - x72", "A 1 0 - x6b " + spec.hexs("1<2&3>4'5\"6"), "X 2 " + spec.hexs("a<b&c>d'e\"f")]}))
    out.append(Case("<!DOCTYPE r [" + pre + "<!ENTITY w 'x&lt;y&amp;z'>]><r>&w;</r>", flags, True,
                    meta={"gen": "predefined-declared-nested", "expect_content": ["Q 1 - x72", "X 2 " + spec.hexs("x<y&z")]}))
    return out


# ---------------------------------------------------------------------------------------------
# families added after the fourteenth wave of seeded changes
# ---------------------------------------------------------------------------------------------
def g_dup_attr_wide(flags="c"):
    """an attribute written twice among MANY attributes (the duplicate test of a wide start tag), on an element that
    follows other elements with attributes of their own"""
    out = []
    for n in (2, 3, 15, 16, 17, 18, 32, 33, 40):
        names = ["a%d" % i for i in range(n)]
        for dup_of in sorted(set([0, n // 2, n - 1])):
            for pos in sorted(set([dup_of + 1, n])):
                attrs = names[:pos] + [names[dup_of]] + names[pos:]
                tag = "<e " + " ".join("%s='%d'" % (a, i) for i, a in enumerate(attrs)) + "/>"
                for pre in ("<root id='r'>", "<root>", "<root id='r' k='2'><x y='1' z='2'/>"):
                    out.append(Case(pre + tag + "</root>", flags, True,
                                    meta={"gen": "dup-attr-wide", "n": n, "illformed": "attribute %s specified twice among %d" % (names[dup_of], n + 1)}))
        # the same width without a duplicate
        tag = "<e " + " ".join("%s='%d'" % (a, i) for i, a in enumerate(names)) + "/>"
        out.append(Case("<root id='r'>" + tag + "</root>", flags, True, meta={"gen": "no-dup-attr-wide", "n": n, "wellformed": "%d distinct attributes" % n}))
    # duplicates by expanded name in a wide tag: two prefixes bound to one URI
    for n in (3, 17, 20):
        fill = " ".join("f%d='%d'" % (i, i) for i in range(n))
        out.append(Case("<root id='r'><e xmlns:p='u' xmlns:q='u' %s p:k='1' q:k='2'/></root>" % fill, flags, True,
                        meta={"gen": "dup-attr-wide-expanded", "n": n, "illformed": "two attributes with one expanded name among %d" % (n + 2)}))
    return out


def utf8_byte_chars():
    """for every byte value that can occur in valid UTF-8 beyond ASCII, a character whose encoding contains it"""
    chars = []
    for b2 in range(0x80, 0xC0):
        chars.append(chr(0x80 + (b2 - 0x80)))                 # C2 xx
        chars.append(chr(0x400 + (b2 - 0x80)))                # D0 xx
    for lead in range(0xC2, 0xE0):
        chars.append(chr((lead & 0x1F) << 6 | 0x21))
    for lead in range(0xE0, 0xF0):
        cp = (lead & 0x0F) << 12 | (0x20 << 6 if lead == 0xE0 else 0) | 0x2A
        if lead == 0xED:
            cp = 0xD000 | 0x2A
        chars.append(chr(cp))
    for lead in range(0xF0, 0xF5):
        cp = (lead & 0x07) << 18 | (0x10 << 12 if lead == 0xF0 else 0) | 0x2A
        if lead == 0xF4:
            cp = 0x100000 | 0x2A
        chars.append(chr(cp))
    seen, out = set(), []
    for c in chars:
        if c not in seen and 0xD800 > ord(c) or ord(c) > 0xDFFF:
            if c not in seen:
                seen.add(c)
                out.append(c)
    return out


def g_utf8_bytes(flags="ncb"):
    """one non-ASCII character per value (text, attribute, comment, PI, CDATA): nothing to normalise, so the stored strings are
    the input's own bytes; a byte-wise scan that confuses a continuation byte with a special ASCII byte shows here"""
    out = []
    for c in utf8_byte_chars():
        if ord(c) in (0x85, 0x2028):
            pass
        doc = "<r a='%sble' b=\"x%s\">t%su<!--%s--><?p %s?><![CDATA[%s]]></r>" % (c, c, c, c, c, c)
        out.append(Case(doc, flags, True, meta={"gen": "utf8-byte", "cp": ord(c), "expect_all_borrowed": True}))
    return out


def g_cr_in_misc(flags="ncb"):
    """CR and CR LF inside comments and PI values -- the exact source strings, stored as slices (no line-end normalisation
    there) -- in the prolog, in content, in the internal subset and inside an entity value"""
    out = []
    for le in ("\r", "\r\n", "\n\r", "\r\r"):
        c = "<!--a%sb-->" % le
        p = "<?p a%sb?>" % le
        for doc in (c + "<r/>", "<r>" + c + "</r>", "<r/>" + c, p + "<r/>", "<r>x" + p + "y</r>", "<r/>" + p,
                    "<!DOCTYPE r [" + c + p + "]><r/>", "<!DOCTYPE r [<!ENTITY e '" + c + p + "'>]><r>&e;</r>",
                    "<!DOCTYPE r [<!ENTITY e 'u" + c + "v'>]><r>1&e;2</r>"):
            out.append(Case(doc, flags, True, meta={"gen": "cr-in-comment-pi", "misc_verbatim": True, "expect_all_borrowed": "&e;" not in doc}))
    return out


def g_prefix_out_of_scope(flags="c"):
    """a prefix used after the element that declared it has ended: undeclared there, whatever was resolved before"""
    out = []
    bad = [
        "<r><a xmlns:p='urn:x'><p:b/></a><p:c/></r>",
        "<r><a xmlns:p='urn:x'><p:b/></a><c p:k='1'/></r>",
        "<r><a xmlns:p='urn:x' p:k='1'/><b p:k='2'/></r>",
        "<r><p:a xmlns:p='urn:x'/><p:a/></r>",
        "<r><a xmlns:p='urn:x'><p:b/><p:b/></a>t<p:b/></r>",
        "<r><a xmlns:p='u'><b><p:c/></b></a><d><p:c/></d></r>",
        "<!DOCTYPE r [<!ENTITY e \"<a xmlns:p='u'><p:b/></a>\">]><r>&e;<p:c/></r>",
        "<!DOCTYPE r [<!ENTITY e '<p:b/>'>]><r><a xmlns:p='u'>&e;</a>&e;</r>",
        "<r><a xmlns:p='u'><p:b/></a><a xmlns:q='u'><p:b/></a></r>",
    ]
    for d in bad:
        out.append(Case(d, flags, True, meta={"gen": "prefix-out-of-scope", "illformed": "prefix used outside the scope of its declaration"}))
    good = [
        "<r><a xmlns:p='urn:x'><p:b/></a><a xmlns:p='urn:y'><p:c/></a></r>",
        "<r xmlns:p='u0'><a xmlns:p='urn:x'><p:b/></a><p:c/></r>",
        "<!DOCTYPE r [<!ENTITY e '<p:b/>'>]><r><a xmlns:p='u'>&e;</a><a xmlns:p='v'>&e;</a></r>",
    ]
    for d in good:
        out.append(Case(d, flags, True, meta={"gen": "prefix-rebound", "wellformed": "prefix declared again where it is used"}))
    return out


def g_entity_value_chars(flags="nc"):
    """boundary characters of the Char production written LITERALLY inside an otherwise ASCII entity value (and with a
    non-ASCII neighbour), used in content and in an attribute value"""
    out = []
    for cp in (0x20, 0x21, 0x7E, 0x7F, 0x80, 0x84, 0x85, 0x86, 0x9F, 0xA0, 0xFF, 0x7FF, 0x800, 0xD7FF, 0xE000, 0xFFFD, 0x10000, 0x10FFFF):
        ch = chr(cp)
        for val in ("a" + ch + "b", ch, ch + "é"):
            ents = {"e": val}
            dtd = "<!DOCTYPE r [<!ENTITY e '%s'>]>" % val
            out.append(Case(dtd + "<r>&e;</r>", flags, True, meta={"gen": "entity-value-char-text", "cp": cp, "src": "&e;", "expect_text": spec.decode_text("&e;", ents)}))
            out.append(Case(dtd + "<r k='&e;'/>", "c", True, meta={"gen": "entity-value-char-attr", "cp": cp, "src": "&e;", "expect_attr": spec.norm_attr("&e;", ents)}))
    return out


def g_cdata_tricky_nonchar(flags="t"):
    """a character outside Char AFTER a place where a scanner restarts: lone ']' / ']]' in CDATA, '-' in a comment, '?' in a
    PI, a reference in text or in a value, on the first and on a later line, after multi-byte characters"""
    out = []
    bads = ["\x01", "\x0b", "￾", "￿"]
    pres = ["a[0]", "]", "]]", "]>", "a]b]]c", "é]", "x]\ny", "]\n\n", "a[0]\nb"]
    for bad in bads[:2] + bads[2:3]:
        for pre in pres:
            out.append(Case("<?xml version=\"1.0\"?><r><![CDATA[" + pre + bad + "c]]></r>", flags, True, meta={"gen": "nonchar-after-bracket-cdata"}))
            out.append(Case("<r>\n<![CDATA[" + pre + "]]><![CDATA[" + pre + bad + "]]></r>", flags, True, meta={"gen": "nonchar-after-bracket-cdata2"}))
        for pre in ("a-b", "-", "a - b\n- c", "é-"):
            out.append(Case("<r><!--" + pre + bad + "--></r>", flags, True, meta={"gen": "nonchar-after-dash-comment"}))
        for pre in ("a?b", "?", "a ?\n>", "é?"):
            out.append(Case("<r><?p " + pre + bad + "?></r>", flags, True, meta={"gen": "nonchar-after-qm-pi"}))
        for pre in ("&amp;", "a&#10;b", "&lt;\n", "]]", "]"):
            out.append(Case("<r>" + pre + bad + "</r>", flags, True, meta={"gen": "nonchar-after-ref-text"}))
            out.append(Case("<r k='" + pre.replace("&lt;", "&gt;") + bad + "'/>", flags, True, meta={"gen": "nonchar-after-ref-attr"}))
        for lit in ("SYSTEM \"a%s.dtd\"", "SYSTEM\n \"a%s\"", "PUBLIC \"p\" \"a%s\"", "PUBLIC 'p'\n\n  'abé%s'"):
            out.append(Case("<!DOCTYPE r " + (lit % bad) + "><r/>", flags, True, meta={"gen": "nonchar-in-system-literal"}))
            out.append(Case("<!DOCTYPE r [<!ENTITY x " + (lit % bad) + ">]><r/>", flags, True, meta={"gen": "nonchar-in-entity-system-literal"}))
    return out


def g_same_ns_many(flags="c", counts=(65535, 65536, 65537, 70000)):
    """ONE namespace declared again on 2^16 and more elements, under a prefix that sorts after 'xml' and under one that
    sorts before it: the limit counts distinct namespaces, not declarations"""
    out = []
    for k in counts:
        for pfx in ("z", "xsi", "a"):
            body = ("<%s:i xmlns:%s='http://www.w3.org/2001/XMLSchema-instance' %s:a='1'/>" % (pfx, pfx, pfx)) * k
            out.append(Case("<r>" + body + "</r>", flags, True, meta={"gen": "same-namespace-many", "k": k, "prefix": pfx, "wellformed": "one distinct namespace declared %d times" % k}))
    return out


def g_ns_entity_sibling(flags="nc"):
    """an element from an entity's replacement text declares a namespace; the sibling that follows the reference declares the
    same prefix (or the default namespace) again: two different elements, so no duplicate"""
    out = []
    docs = [
        "<!DOCTYPE r [<!ENTITY e \"<b xmlns:p='u1'/>\">]><r>&e;<c xmlns:p='u2'/></r>",
        "<!DOCTYPE r [<!ENTITY e \"<b xmlns='u1'/>\">]><r>&e;<c xmlns='u2'/></r>",
        "<!DOCTYPE r [<!ENTITY e \"<b xmlns:p='u1'/>\">]><r>&e;<c xmlns:p='u1'/></r>",
        "<!DOCTYPE r [<!ENTITY e \"<b xmlns:p='u1'><p:i/></b>\">]><r>&e;&e;<p:c xmlns:p='u2' p:k='1'/></r>",
        "<!DOCTYPE r [<!ENTITY e \"<b xmlns:p='u1' xmlns='d1'/>\"><!ENTITY f 'x&e;y'>]><r>&f;<c xmlns='d2' xmlns:p='u2'/></r>",
        "<!DOCTYPE r [<!ENTITY e \"<b xmlns:p='u1'/>\">]><r xmlns:q='w'><a>&e;</a><c xmlns:p='u2' xmlns:q='w2'/></r>",
        "<!DOCTYPE r [<!ENTITY e \"t<b xmlns:p='u1'/>t\">]><r>&e;<c xmlns:p='u2'>&e;<d xmlns:p='u3'/></c></r>",
    ]
    for d in docs:
        out.append(Case(d, flags, True, meta={"gen": "ns-entity-sibling", "wellformed": "namespace declared inside an entity's element and again on the following sibling"}))
    return out


def g_ent_many_decls(flags="c", dists=(256, 512)):
    """a chain through two entities whose declaration indices differ by a power of two (index truncation in a detector that
    remembers WHICH entities are open), in a subset with hundreds of declarations"""
    out = []
    for dist in dists:
        n = dist + 44
        for i in (0, 3, 43):
            decls = []
            for k in range(n):
                if k == i:
                    decls.append(("e%d" % k, "[&e%d;]" % (k + dist)))
                else:
                    decls.append(("e%d" % k, "v%d" % k))
            exp = "[v%d]" % (i + dist)
            big = dist >= 4096      # the extracted model's list recursion overflows its stack on 65 000 declarations: implementation + oracle only
            out.append(Case(ent_doc(decls, "<r>&e%d;</r>" % i), flags, True, meta={"gen": "many-decls-text", "dist": dist, "i": i, "expect": "ok", "expect_value": exp, "impl_only": big}))
            out.append(Case(ent_doc(decls, "<r a='&e%d;'/>" % i), flags, True, meta={"gen": "many-decls-attr", "dist": dist, "i": i, "expect": "ok", "expect_value": exp, "impl_only": big}))
    return out


def g_ent_fanout_sep(fs, ds, flags="c"):
    """billion laughs in which every level starts with a reference to an entity whose value is ONE character reference
    (or one character): the separator is an entity expansion like any other, the limits apply unchanged"""
    out = []
    for sep_val, sep_len in (("&#160;", 2), ("&#65;", 1), ("s", 1), ("", 0)):
        for f in fs:
            for d in ds:
                decls = [("sep", sep_val), ("l0", "z" * 8)] + [("l%d" % i, "&sep;" + ("&l%d;" % (i - 1)) * f) for i in range(1, d + 1)]
                # references below the top-level one: per level-i expansion 1 (&sep;) + f; number of level-i expansions f^(d-i)
                nested = sum((f ** (d - i)) * (1 + f) for i in range(1, d + 1))
                ok = (d + 1 <= 10) and (nested <= 255)
                exp_len = 8 * f ** d + sep_len * sum(f ** (d - i) for i in range(1, d + 1))
                for use in ("text", "attr"):
                    body = "<r>&l%d;</r>" % d if use == "text" else "<r a='&l%d;'/>" % d
                    out.append(Case(ent_doc_dq(decls, body), flags, True,
                                    meta={"gen": "fanout-sep-" + use, "f": f, "d": d, "sep": sep_val,
                                          "expect": "ok" if ok else "EntityReferenceLoop", "expect_len": exp_len if ok else None}))
    return out


def g_api_shapes(flags="nc"):
    """small documents whose TREE SHAPE is unusual: an empty CDATA section (an empty Text node) as the last / only / middle
    child, after elements, comments, text; nodes from entity values between siblings; comments / PIs around the root element;
    multi-piece text before a comment; every read accessor is then asked on every node"""
    out = []
    docs = [
        "<a><b/><![CDATA[]]></a>", "<r><a/><![CDATA[]]></r>", "<a><!--c--><![CDATA[]]></a>", "<a><b><c/></b><![CDATA[]]></a>",
        "<a><![CDATA[]]></a>", "<a><b/><![CDATA[]]><c/></a>", "<a>t<![CDATA[]]></a>", "<a><?p?><![CDATA[]]></a>",
        "<a><b><![CDATA[]]></b></a>", "<a><b/><![CDATA[]]><![CDATA[]]></a>", "<r><a><b/><![CDATA[]]></a><c/></r>",
        "<r><a><b/></a><![CDATA[]]></r>", "<!--p--><a><b/><![CDATA[]]></a><!--e-->",
        "<!DOCTYPE r [<!ENTITY e '<b/>'>]><r><a/>&e;<c/></r>", "<!DOCTYPE r [<!ENTITY e '<b/><!--k-->'>]><r>&e;<c/>t</r>",
        "<!DOCTYPE r [<!ENTITY e '<![CDATA[]]>'>]><r><a/>&e;</r>", "<!DOCTYPE r [<!ENTITY e ''>]><r><a/>&e;</r>",
        "<!DOCTYPE r [<!ENTITY i '<b/><!--c--><?p v?>'><!ENTITY o 'x &i; y'>]><r>&o;</r>",
        "<!DOCTYPE r [<!ENTITY item '<i/>'><!ENTITY alias '&item;'>]><r>&alias;&alias;</r>",
        "<!DOCTYPE r [<!ENTITY e '<b>t</b>'><!ENTITY f '&e;u&e;'>]><r>s&f;v<c/>&f;</r>",
        "<!-- prolog --><e xmlns='u'/>", "<e/>\n<?pi v?>", "<!DOCTYPE e [<!--c--><?pi x?>]><e/>", "<?a?><!--b--><e><!--c--></e><?d?><!--e-->",
        "<a>x<![CDATA[b]]><!--c--></a>", "<a><![CDATA[a]]><![CDATA[b]]><?p?></a>", "<a>1<b/>2<b/>3<b/>4<b/>5</a>",
        "<root><a/><b/><c/><d/><e/></root>", "<root>\n  <group>\n    <i/>\n  </group>\n  <j/>\n</root>",
    ]
    for d in docs:
        out.append(Case(d, flags, True, meta={"gen": "api-shape"}))
    return out


def g_many_small_expansions(flags="c"):
    """more than 255 nested entity references in the whole document, but far fewer under any single top-level reference: the
    budget is per top-level reference, so every one of them must expand"""
    out = []
    decls = [("a", "v"), ("e", "&a;" * 10)]
    attrs = " ".join("k%d='&e;'" % i for i in range(40))
    out.append(Case(ent_doc(decls, "<r %s/>" % attrs), flags, True,
                    meta={"gen": "many-small-expansions-attr", "wellformed": "40 attributes with 10 nested references each", "expect": "ok", "expect_len": 400}))
    out.append(Case(ent_doc(decls, "<r>" + "<i>&e;</i>" * 60 + "</r>"), flags, True,
                    meta={"gen": "many-small-expansions-text", "wellformed": "60 elements with 10 nested references each", "expect": "ok", "expect_len": 600}))
    out.append(Case(ent_doc(decls, "<r>" + "<i k='&e;'>&e;</i>" * 30 + "</r>"), flags, True,
                    meta={"gen": "many-small-expansions-mixed", "wellformed": "30 elements, attribute and text with 10 nested references each", "expect": "ok", "expect_len": 600}))
    decls2 = [("a", "v"), ("e", "&a;" * 255)]
    out.append(Case(ent_doc(decls2, "<r k='&e;'>&e;<i k='&e;'/>&e;</r>"), flags, True,
                    meta={"gen": "many-small-expansions-255", "wellformed": "four top-level references with 255 nested references each", "expect": "ok", "expect_len": 1020}))
    return out


def g_borrow_after(flags="ncb"):
    """plain strings AFTER strings that had to be copied: a text of several pieces / a normalised attribute value must not
    change how a later plain text / plain value is stored (meta: per text node and per attribute, in document order, whether
    it must be a slice of the input)"""
    out = []
    docs = [
        ("<r><a>one<![CDATA[two]]></a><b>plain</b></r>", [False, True], []),
        ("<r><a>1&amp;2</a><b>plain</b><c><![CDATA[sole]]></c></r>", [False, True, True], []),
        ("<!DOCTYPE r [<!ENTITY e 'v'>]><r><a>1&e;2</a><b>plain</b>tail</r>", [False, True, True], []),
        ("<r><e a='x\ny'/><e b='x y'/></r>", [], [False, True]),
        ("<r><e href='p&#x71;' alt='pq'/></r>", [], [False, True]),
        ("<r a='1&amp;2' b='1&amp;2' c='1&2x'/>".replace("&2x", "2x"), [], [False, False, True]),
        ("<r><e a='v\tw'/>t<e a='v w' b='v\tw'/></r>", [True], [False, True, False]),
        ("<r k='a&#9;'><a>x\r</a><b k='a\t'>x\n</b><c k='a '>x</c></r>", [False, True, True], [False, False, True]),
    ]
    for d, texts, attrs in docs:
        out.append(Case(d, flags, True, meta={"gen": "borrow-after", "expect_borrowed_texts": texts, "expect_borrowed_attrs": attrs}))
    return out


def g_reserved_uri_values(flags="c"):
    """the reserved namespace URIs as VALUES of ordinary attributes (only namespace declarations are restricted)"""
    out = []
    for uri in ("http://www.w3.org/2000/xmlns/", "http://www.w3.org/XML/1998/namespace"):
        for doc, exp in (("<r a='%s'/>" % uri, uri), ("<r xmlns:p='u' p:a='%s'/>" % uri, uri), ("<r a='%s'/>" % uri.replace("/", "&#47;", 1), uri),
                         ("<!DOCTYPE r [<!ENTITY w 'http://www.w3.org/'>]><r a='&w;%s'/>" % uri[len("http://www.w3.org/"):], uri)):
            out.append(Case(doc, flags, True, meta={"gen": "reserved-uri-as-value", "src": doc, "expect_attr": exp}))
    out.append(Case("<r a='http://www.w3.org/2000/xmlns/' b='http://www.w3.org/XML/1998/namespace' xml:lang='http://www.w3.org/2000/xmlns/'/>", flags, True,
                    meta={"gen": "reserved-uri-as-value", "wellformed": "reserved URIs as values of ordinary attributes"}))
    return out


def g_ent_ladder(flags="c"):
    """every level of an exponential family referenced at depth zero, lowest level first, then the top level: what was expanded
    before does not make later expansions free"""
    out = []
    for f, d, leaf in ((8, 7, 16), (16, 3, 4), (3, 6, 2)):
        decls = [("l0", "z" * leaf)] + [("l%d" % i, ("&l%d;" % (i - 1)) * f) for i in range(1, d + 1)]
        nested_top = sum(f ** k for k in range(1, d + 1))
        for upto in range(1, d + 1):
            nested = sum(f ** k for k in range(1, upto + 1))
            ok = (upto + 1 <= 10) and nested <= 255
            ladder = "".join("&l%d;" % i for i in range(0, upto + 1))
            for use in ("text", "attr"):
                body = "<r>" + ladder + "</r>" if use == "text" else "<r a='" + ladder + "'/>"
                out.append(Case(ent_doc(decls, body), flags, True,
                                meta={"gen": "ladder-" + use, "f": f, "upto": upto, "expect": "ok" if ok else "EntityReferenceLoop"}))
    return out


def g_charref_values(flags="nc"):
    """character references to the boundary values of Char, decimal and hexadecimal, with leading zeros, in text and in
    attribute values, directly and inside an entity value; U+FFFD is an ordinary character"""
    out = []
    for cp in (0x20, 0x7F, 0x80, 0xD7FF, 0xE000, 0xFFFB, 0xFFFC, 0xFFFD, 0x10000, 0x10FFFF):
        ch = chr(cp)
        for ref in ("&#x%X;" % cp, "&#%d;" % cp, "&#x000%x;" % cp, "&#00%d;" % cp):
            src = "a" + ref + "b"
            out.append(Case("<r>" + src + "</r>", flags, True, meta={"gen": "charref-value-text", "cp": cp, "src": src, "expect_text": spec.decode_text(src, {})}))
            out.append(Case("<r k='" + src + "'/>", "c", True, meta={"gen": "charref-value-attr", "cp": cp, "src": src, "expect_attr": spec.norm_attr(src, {})}))
        ents = {"e": "a&#x%X;b" % cp}
        dtd = "<!DOCTYPE r [<!ENTITY e '%s'>]>" % ents["e"]
        out.append(Case(dtd + "<r>&e;</r>", flags, True, meta={"gen": "charref-value-entity-text", "cp": cp, "src": "&e;", "expect_text": spec.decode_text("&e;", ents)}))
        out.append(Case(dtd + "<r k='&e;'/>", "c", True, meta={"gen": "charref-value-entity-attr", "cp": cp, "src": "&e;", "expect_attr": spec.norm_attr("&e;", ents)}))
    return out


def g_long_prefix_then_ref(flags="ncpb"):
    """a long literal run (around 16 / 32 / 64 bytes) directly before a reference that yields markup only, nothing, or text:
    the text node before the reference keeps its own span and storage"""
    out = []
    decls = [("m", "<b/>"), ("z", ""), ("t", "T"), ("c", "<!--k-->")]
    for n in (1, 15, 16, 17, 31, 32, 33, 63, 64, 65, 200):
        lit = ("abcdefghij" * 30)[:n]
        for ref in ("&m;", "&z;", "&t;", "&c;", "&#65;", "&amp;"):
            for tail in ("", "x", "<i/>"):
                out.append(Case(ent_doc(decls, "<r>" + lit + ref + tail + "</r>"), flags, True, meta={"gen": "long-prefix-then-ref", "n": n, "ref": ref}))
        out.append(Case(ent_doc(decls, "<r k='" + lit + "&t;'><a>" + lit + "\r&m;</a></r>"), flags, True, meta={"gen": "long-prefix-then-ref", "n": n, "ref": "attr+cr"}))
    return out
