D='/verif/coq/Proofs/'
def rep1(s,a,b,cnt=1):
    assert s.count(a)==cnt, (a[:80], s.count(a))
    return s.replace(a,b)
s=open(D+'CstSound6uRMain.v').read()
i=s.index('(* ---- the content loop ---- *)')
s=s[:i]+'End MainR.\n'
s=s.replace('CstSound6uLex','CstSound6aLex').replace('CstSound6uDtd','CstSound6aDtd').replace('CstSound6uText','CstSound6aText').replace('CstSound6uRText','CstSound6aRText').replace('CstSound6uRTok','CstSound6aRTok').replace('Frag6u','Frag6a')
s=rep1(s,'(* Proofs/CstSound6uRMain.v -- CstSoundPRMain.v re-instantiated on Frag6a.','(* Proofs/CstSound6aRTag.v -- the first half of CstSound6uRMain.v (entries and start tags) on Frag6a, markup-valued entities\n   referenced ([Hmk], [Hvals] of CstSound6aRText.v instead of [Hunref]).  Original header: CstSoundPRMain.v re-instantiated on Frag6a.')
s=rep1(s,'Hypothesis Hunref : forall d its, In d decls -> E.e_value d = E.EContent its -> contains_b ([38] ++ E.e_name d ++ [59]) text = false.\n',
'''Hypothesis Hmk : forall d its, In d decls -> E.e_value d = E.EContent its ->
  mem_b 60 (E.r_value (E.e_value d)) = true /\\ Forall (fun y => y <> 38) (E.r_value (E.e_value d)).
Hypothesis Hvals : forall d vps, In d decls -> E.e_value d = E.EText vps -> NoMk decls (E.r_epieces vps).
''')
s=s.replace('(value_r text HF decls ets Henv Hdecls Hunref Hnames','(value_r text HF decls ets Henv Hdecls Hmk Hvals Hnames')
s=s.replace('Hnd & Hvals & Heff','Hnd & Hvs & Heff').replace('HI2) Hvals Heff)','HI2) Hvs Heff)')

def rep1b(a,b,cnt=1):
    global s
    assert s.count(a)==cnt,(a[:80],s.count(a))
    s=s.replace(a,b)
# per-attribute structure of the entries
rep1b("""             flat_map r_entry es = flat_map r_rattr attrs /\\ forallb (wf_entry M3) es = true /\\
             Res c2 D K (CstNs.own_bindings (des ++ map xe3 es)).""",
"""             flat_map r_entry es = flat_map r_rattr attrs /\\ forallb (wf_entry M3) es = true /\\
             Res c2 D K (CstNs.own_bindings (des ++ map xe3 es)) /\\
             Forall2 (fun a e => exists ps, e = entry_of_r a ps /\\ utf8s (ra_val a) = E.r_epieces (enc_epieces ps) /\\ wf_eval tb (ra_quote a) ps = true) attrs es.""")
rep1b("  - cbn [nattr_toks CstLex.evs] in H. inversion H; subst. exists []. cbn [map]. rewrite app_nil_r. auto.",
      "  - cbn [nattr_toks CstLex.evs] in H. inversion H; subst. exists []. cbn [map]. rewrite app_nil_r. auto 10.")
rep1b("    destruct (IH _ _ _ _ _ _ _ _ HWn Hras HI' D K HR' H) as (es & HI2 & R2 & E1 & E2 & HR2).",
      "    destruct (IH _ _ _ _ _ _ _ _ HWn Hras HI' D K HR' H) as (es & HI2 & R2 & E1 & E2 & HR2 & HF2).")
rep1b("    split; [exact HI2|]. split; [congruence|]. split; [|split; [|exact HR2]].",
      "    split; [exact HI2|]. split; [congruence|]. split; [|split; [|split; [exact HR2|constructor; [exists ps; auto|exact HF2]]]].")
rep1b("""    flat_map r_entry es = flat_map r_rattr attrs /\\ elem_ok_r (top_sc stk) pre loc es ws_end /\\
    Res c' (D ++ CstNs.own_bindings (map xe3 es))
        (K + elem_cost (CstNs.own_bindings (map xe3 es)) (Scope.scope_of (CstNs.own_bindings (map xe3 es)) (top_sc stk))) [].""",
"""    flat_map r_entry es = flat_map r_rattr attrs /\\ elem_ok_r (top_sc stk) pre loc es ws_end /\\
    Res c' (D ++ CstNs.own_bindings (map xe3 es))
        (K + elem_cost (CstNs.own_bindings (map xe3 es)) (Scope.scope_of (CstNs.own_bindings (map xe3 es)) (top_sc stk))) [] /\\
    Forall2 (fun a e => exists ps, e = entry_of_r a ps /\\ utf8s (ra_val a) = E.r_epieces (enc_epieces ps) /\\ wf_eval tb (ra_quote a) ps = true) attrs es.""")
rep1b("  destruct (attrs_steps_r _ _ _ _ _ _ _ _ _ HW2 Hattrs HI D K HR1 H2) as (es & HI2 & R2 & E1 & E2 & HR2).",
      "  destruct (attrs_steps_r _ _ _ _ _ _ _ _ _ HW2 Hattrs HI D K HR1 H2) as (es & HI2 & R2 & E1 & E2 & HR2 & HF2).")
rep1b("  split; [|exact HR3].\n","  split; [|split; [exact HR3|exact HF2]].\n")

open(D+'CstSound6aRTag.v','w').write(s)
print('ok')
