D='/verif/coq/Proofs/'
def rep1(s,a,b,cnt=1):
    assert s.count(a)==cnt, (a[:80], s.count(a))
    return s.replace(a,b)
s=open(D+'CstSound6uRText.v').read()
s=s.replace('CstSound6uLex','CstSound6aLex').replace('CstSound6uText','CstSound6aText').replace('Frag6u','Frag6a')
s=rep1(s,'(* Proofs/CstSound6uRText.v -- CstSoundPRText.v re-instantiated on Frag6a, the declarations of markup-valued\n   entities being in the table (never referenced: [Hunref]).',
 '(* Proofs/CstSound6aRText.v -- CstSound6uRText.v on Frag6a: markup-valued entities may be referenced.  In an attribute value\n   the model refuses such a reference ([nattr_lt_fail]: \'<\' at entity depth > 0); the character-data machine [PTok] runs on\n   windows that mention no markup-valued entity ([NoMk]: the values of the character-data entities, M of CstSound6a.v).')
# hypotheses
hyp='Hypothesis Hunref : forall d its, In d decls -> E.e_value d = E.EContent its -> contains_b ([38] ++ E.e_name d ++ [59]) text = false.\n'
new_hyp='''Hypothesis Hmk : forall d its, In d decls -> E.e_value d = E.EContent its ->
  mem_b 60 (E.r_value (E.e_value d)) = true /\\ Forall (fun y => y <> 38) (E.r_value (E.e_value d)).
(* [l] mentions no markup-valued entity *)
Definition NoMk (l : bytes) : Prop := forall d its, In d decls -> E.e_value d = E.EContent its -> contains_b ([38] ++ E.e_name d ++ [59]) l = false.
Hypothesis Hvals : forall d vps, In d decls -> E.e_value d = E.EText vps -> NoMk (E.r_epieces vps).
'''
s=rep1(s,hyp,new_hyp)
# ref_decl
i0=s.index('(* the declaration a reference resolves to *)')
i1=s.index('Lemma lookup_ref j name d vps Q tr')
new_ref='''Lemma NoMk_suffix pre l : NoMk (pre ++ l) -> NoMk l.
Proof.
  intros H d its Hin Ev. specialize (H d its Hin Ev).
  pose proof (CstSoundTLex.contains_skipn _ (length pre) _ H ltac:(discriminate)) as H'. rewrite skipn_len_app in H'. exact H'.
Qed.
Lemma NoMk_cons x l : NoMk (x :: l) -> NoMk l.
Proof. apply (NoMk_suffix [x]). Qed.

(* the declaration a reference resolves to *)
Lemma ref_decl name en p rest : W p ([38] ++ name ++ [59] ++ rest) -> find_entity text ets name = Some en ->
  (exists d vps vs tail, first_decl decls name = Some d /\\ E.e_value d = E.EText vps /\\
    Forall (uep_ok true) vps /\\ contains_b n3 (E.r_epieces vps) = false /\\ E.no_adjacent_elit vps = true /\\
    en_value en = sl vs (vs + blen (E.r_epieces vps)) /\\ WV vs (E.r_epieces vps ++ tail) /\\ uname name /\\ In d decls) \\/
  (exists d its vs tail, first_decl decls name = Some d /\\ E.e_value d = E.EContent its /\\ In d decls /\\ E.e_name d = name /\\
    en_value en = sl vs (vs + blen (E.r_value (E.e_value d))) /\\ WV vs (E.r_value (E.e_value d) ++ tail)).
Proof.
  intros HWp Hf. destruct (find_entity_first text name en decls ets Henv Hf) as (d & Hd & _ & vs & tail & Ev & HWv).
  destruct (first_decl_in decls name d Hd) as [Hin En]. rewrite Forall_forall in Hnames. pose proof (Hnames _ Hin) as Hu. rewrite En in Hu.
  rewrite Forall_forall in Hdecls. pose proof (Hdecls _ Hin) as Hok. unfold CstFullS4TSem.udecl_okc in Hok.
  destruct (E.e_value d) as [vps|its] eqn:Eval.
  - left. destruct Hok as (Hok & Hn3 & Hadj). cbn [E.r_value] in Ev, HWv. exists d, vps, vs, tail.
    split; [exact Hd|]. split; [exact Eval|]. split; [exact Hok|]. split; [exact Hn3|]. split; [exact Hadj|]. split; [exact Ev|]. split; [exact HWv|]. split; [exact Hu|exact Hin].
  - right. exists d, its, vs, tail. split; [exact Hd|]. split; [exact Eval|]. split; [exact Hin|]. split; [exact En|]. rewrite Eval. split; [exact Ev|exact HWv].
Qed.

(* a window with '<' and without '&', read as (part of) an attribute value inside an entity: refused *)
Lemma nattr_lt_fail j : forall fu e p l more t ld t' ld', CstSoundTText.WS text e p l more ->
  Forall (fun y => y <> 38) l -> mem_b 60 l = true -> 0 < ld_depth ld ->
  WfParse.nattr_loop text j ets fu (sst e p (l ++ more)) t ld = Ok (t', ld') -> False.
Proof.
  induction fu as [|fu IH]; intros e p l more t ld t' ld' HW H38 H60 Hd H; cbn [WfParse.nattr_loop] in H; [noerr|].
  rewrite at_end_sst in H. pose proof HW as [HW0 Hw].
  destruct l as [|x l1]; [discriminate|].
  rewrite blen_cons in Hw. replace (e <=? p) with false in H by lia.
  cbn [app curr_byte_unchecked sst s_rest bind] in H.
  apply Forall_cons_iff in H38. destruct H38 as [Hx H38'].
  replace (x =? 38) with false in H by lia. cbn [negb] in H.
  destruct (x =? 60) eqn:E60.
  - replace (0 <? ld_depth ld) with true in H by lia. cbn [andb] in H. noerr.
  - cbn [andb] in H. fold (sst e p (x :: l1 ++ more)) in H. rewrite advance1_sst in H by lia. cbn [bind] in H.
    apply (IH _ _ _ _ _ _ _ _ (CstSoundTText.WS_cons text _ _ _ _ _ HW) H38' ltac:(cbn [mem_b] in H60; replace (60 =? x) with false in H60 by lia; exact H60) Hd H).
Qed.

'''
s=s[:i0]+new_ref+s[i1:]
# nattr site
old='''      destruct (ref_decl name en p (l5 ++ more) ltac:(cbn [app] in HW0 |- *; rewrite <- app_assoc in HW0; exact HW0) Ef) as (d & vps & vs & tail & Hd & Ev & Hok & Hn3 & Hadj & Een & HWv & Hun).
      ib H ld1 Hl1. ib H ld2 Hl2. ib H q Hq. destruct q as [t1 ld3].'''
new='''      destruct (ref_decl name en p (l5 ++ more) ltac:(cbn [app] in HW0 |- *; rewrite <- app_assoc in HW0; exact HW0) Ef)
        as [(d & vps & vs & tail & Hd & Ev & Hok & Hn3 & Hadj & Een & HWv & Hun & Hin)|(d & its & vs & tail & Hd & Ev & Hin & En & Een & HWv)].
      2:{ exfalso. ib H ld1 Hl1. ib H ld2 Hl2. ib H q Hq. destruct q as [t1 ld3].
          assert (Hent : ld_enter ld = Some ld2).
          { pose proof (enter_agrees_model text (sst e (p + 1 + blen name + 1) (l5 ++ more)) ld) as Hm.
            destruct (ld_enter ld) as [ldx|].
            - rewrite Hl1 in Hm. cbn [bind] in Hm. rewrite Hl2 in Hm. injection Hm as <-. reflexivity.
            - exfalso. apply (Hm ld2). rewrite Hl1. cbn [bind]. exact Hl2. }
          destruct (enter_d _ _ Hent) as [Dd _].
          destruct j as [|j']; [cbn [norm_attr_lvl] in Hq; discriminate|].
          rewrite WfParse.norm_attr_lvl_eq, Een in Hq. cbn [sl sl_start sl_end] in Hq.
          destruct (stream_from_substr_ws text vs _ tail (WV_W _ _ _ HWv)) as (Es & HWS). rewrite Es in Hq. cbn [bind] in Hq.
          destruct (Hmk d its Hin Ev) as [M60 M38].
          assert (Dpos : 0 < ld_depth ld2) by lia.
          exact (nattr_lt_fail j' _ _ _ _ _ _ _ _ _ HWS M38 M60 Dpos Hq). }
      ib H ld1 Hl1. ib H ld2 Hl2. ib H q Hq. destruct q as [t1 ld3].'''
s=rep1(s,old,new)
# PTok def & ploop
s=rep1(s,'''Definition PTok (j : nat) : Prop := forall p x tail c c',
  WV p (x ++ tail) -> U8.Valid x -> c_entities c = ets ->''','''Definition PTok (j : nat) : Prop := forall p x tail c c',
  WV p (x ++ tail) -> U8.Valid x -> NoMk x -> c_entities c = ets ->''')
s=rep1(s,'''  WS e p l more -> (exists dn, U8.Valid (dn ++ l)) -> c_entities c = ets ->
  BorrowParse.ptext_loop''','''  WS e p l more -> (exists dn, U8.Valid (dn ++ l)) -> NoMk l -> c_entities c = ets ->
  BorrowParse.ptext_loop''')
s=rep1(s,"intros IHj. induction fuel as [|fu IH]; intros e p l more buf c buf' c' HW HV Hent H; cbn [BorrowParse.ptext_loop] in H; [noerr|].",
        "intros IHj. induction fuel as [|fu IH]; intros e p l more buf c buf' c' HW HV HNo Hent H; cbn [BorrowParse.ptext_loop] in H; [noerr|].")
# IH calls in ploop (charref / predef)
s=rep1(s,"      destruct (IH _ _ _ _ _ _ _ _ HW' HV' Hent H) as (ps & Q & tr & -> & Hps & Hi & Hr & HQ & TF).\n      exists (E.EP (T.PCharRef hex ds) :: ps)",
        "      assert (HNo' : NoMk l').\n      { apply (NoMk_suffix (38 :: [35] ++ (if hex then [120] else []) ++ ds ++ [59])).\n        replace ((38 :: [35] ++ (if hex then [120] else []) ++ ds ++ [59]) ++ l') with (38 :: [35] ++ (if hex then [120] else []) ++ ds ++ [59] ++ l') by (cbn [app]; rewrite <- !app_assoc; reflexivity). exact HNo. }\n      destruct (IH _ _ _ _ _ _ _ _ HW' HV' HNo' Hent H) as (ps & Q & tr & -> & Hps & Hi & Hr & HQ & TF).\n      exists (E.EP (T.PCharRef hex ds) :: ps)")
s=rep1(s,"      destruct (IH _ _ _ _ _ _ _ _ HW' HV' Hent H) as (ps & Q & tr & -> & Hps & Hi & Hr & HQ & TF).\n      exists (E.EP (T.PPredef pe) :: ps)",
        "      assert (HNo' : NoMk l').\n      { apply (NoMk_suffix (38 :: T.predef_name pe ++ [59])).\n        replace ((38 :: T.predef_name pe ++ [59]) ++ l') with (38 :: T.predef_name pe ++ [59] ++ l') by (cbn [app]; rewrite <- !app_assoc; reflexivity). exact HNo. }\n      destruct (IH _ _ _ _ _ _ _ _ HW' HV' HNo' Hent H) as (ps & Q & tr & -> & Hps & Hi & Hr & HQ & TF).\n      exists (E.EP (T.PPredef pe) :: ps)")
old='''      destruct (ref_decl name en p (l5 ++ more) ltac:(cbn [app] in HW0 |- *; rewrite <- app_assoc in HW0; exact HW0) Ef) as (d & vps & vs & tail & Hd & Ev & Hok & Hn3 & Hadj & Een & HWv & Hun).
      ib H c1 Hc1.'''
new='''      destruct (ref_decl name en p (l5 ++ more) ltac:(cbn [app] in HW0 |- *; rewrite <- app_assoc in HW0; exact HW0) Ef)
        as [(d & vps & vs & tail & Hd & Ev & Hok & Hn3 & Hadj & Een & HWv & Hun & Hin)|(d & its & vs & tail & Hd & Ev & Hin & En & Een & HWv)].
      2:{ exfalso. specialize (HNo d its Hin Ev). rewrite En in HNo. cbn [contains_b] in HNo. apply orb_false_iff in HNo. destruct HNo as [HNo _].
          replace (38 :: name ++ 59 :: l5) with (([38] ++ name ++ [59]) ++ l5) in HNo by (rewrite <- !app_assoc; reflexivity).\n          rewrite prefix_b_app_same in HNo. discriminate. }
      ib H c1 Hc1.'''
s=rep1(s,old,new)
s=rep1(s,"          destruct (IHj j' eq_refl _ _ _ _ _ HWv (CstFullS2Sem.ustr_valid _ Hustr) Hent3 Hc4) as",
        "          destruct (IHj j' eq_refl _ _ _ _ _ HWv (CstFullS2Sem.ustr_valid _ Hustr) ltac:(rewrite <- Evb; exact (Hvals d vps Hin Ev)) Hent3 Hc4) as")
s=rep1(s,"      destruct (IH _ _ _ _ _ _ _ _ HW' HV' Hent6 H) as (ps & Q & tr & -> & Hps & Hi & Hr & HQ & TF).",
        "      assert (HNo' : NoMk l5) by (apply (NoMk_suffix ([38] ++ name ++ [59])); rewrite <- !app_assoc; exact HNo).\n      destruct (IH _ _ _ _ _ _ _ _ HW' HV' HNo' Hent6 H) as (ps & Q & tr & -> & Hps & Hi & Hr & HQ & TF).")
s=rep1(s,"    destruct (IH _ _ _ _ _ _ _ _ (WS_cons _ _ _ _ _ HW) HV' Hent H) as (ps & Q & tr & -> & Hps & Hi & Hr & HQ & TF).\n    destruct (inline_cons_lit _ _ _ x _ _ _ Hi (W_no13 _ _ _ HW0) HQ) as (Q' & Hi' & HQ').\n    exists (econs_lit x ps), Q', tr. split; [rewrite r_econs_lit; reflexivity|]. split; [apply beps_lit; [lia|exact Hps]|].\n    split; [exact Hi'|]. split; [exact Hr|]. split; [exact HQ'|exact TF].",
        "    destruct (IH _ _ _ _ _ _ _ _ (WS_cons _ _ _ _ _ HW) HV' (NoMk_cons _ _ HNo) Hent H) as (ps & Q & tr & -> & Hps & Hi & Hr & HQ & TF).\n    destruct (inline_cons_lit _ _ _ x _ _ _ Hi (W_no13 _ _ _ HW0) HQ) as (Q' & Hi' & HQ').\n    exists (econs_lit x ps), Q', tr. split; [rewrite r_econs_lit; reflexivity|]. split; [apply beps_lit; [lia|exact Hps]|].\n    split; [exact Hi'|]. split; [exact Hr|]. split; [exact HQ'|exact TF].")
# ptok_step
s=rep1(s,"  intros IHj p x tail c c' HWV HVx Hent H. pose proof (WV_W _ _ _ HWV) as HW.","  intros IHj p x tail c c' HWV HVx HNo Hent H. pose proof (WV_W _ _ _ HWV) as HW.")
s=rep1(s,"(ploop_skel j _ IHj _ _ _ _ _ _ _ _ _ HWS (ex_intro _ [] HVx) Hent Hq)","(ploop_skel j _ IHj _ _ _ _ _ _ _ _ _ HWS (ex_intro _ [] HVx) HNo Hent Hq)")
open(D+'CstSound6aRText.v','w').write(s)
print('ok')
