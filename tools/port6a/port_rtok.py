D='/verif/coq/Proofs/'
def rep1(s,a,b,cnt=1):
    assert s.count(a)==cnt, (a[:80], s.count(a))
    return s.replace(a,b)
s=open(D+'CstSound6uRTok.v').read()
s=s.replace('CstSound6uLex','CstSound6aLex').replace('CstSound6uText','CstSound6aText').replace('CstSound6uRText','CstSound6aRText').replace('Frag6u','Frag6a')
s=rep1(s,'Hypothesis Hunref : forall d its, In d decls -> E.e_value d = E.EContent its -> contains_b ([38] ++ E.e_name d ++ [59]) text = false.\n',
'''Hypothesis Hmk : forall d its, In d decls -> E.e_value d = E.EContent its ->
  mem_b 60 (E.r_value (E.e_value d)) = true /\\ Forall (fun y => y <> 38) (E.r_value (E.e_value d)).
Hypothesis Hvals : forall d vps, In d decls -> E.e_value d = E.EText vps -> NoMk decls (E.r_epieces vps).
''')
s=rep1(s,'Lemma step_text_r p cs more c c\' stk : WV p (utf8s cs ++ more) -> raw_text_ok_n cs -> SimP c stk ->','Lemma step_text_r p cs more c c\' stk : WV p (utf8s cs ++ more) -> raw_text_ok_n cs -> NoMk decls (utf8s cs) -> SimP c stk ->')
s=rep1(s,'  intros HWV Hraw HS H. unfold Parse.token, token_with, process_text in H.','  intros HWV Hraw HNo HS H. unfold Parse.token, token_with, process_text in H.')
s=rep1(s,'(ptok_skel text HF decls ets Henv Hdecls Hunref Hnames entity_levels _ _ _ _ _ HWV HVx (sn_ent _ _ _ _ HS) H)','(ptok_skel text HF decls ets Henv Hdecls Hmk Hvals Hnames entity_levels _ _ _ _ _ HWV HVx HNo (sn_ent _ _ _ _ HS) H)')
s=rep1(s,'(nattr_skel text HF decls ets Henv Hdecls Hunref Hnames _','(nattr_skel text HF decls ets Henv Hdecls Hmk Hvals Hnames _')
open(D+'CstSound6aRTok.v','w').write(s)
print('ok')
