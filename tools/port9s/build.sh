#!/bin/bash
# compile the stage-9 soundness chain in order, stop at the first failure:  build.sh [first-file]
cd /verif/coq; mkdir -p /tmp/s9s
ORDER="9 9Aux 9PEnt 9PRef 9PRText 9PRTok 9PRMain 9uEmb 9aSem 9bLv 9GVal 9Flat 9Lex 9Dtd 9Text 9Doc 9Val 9RText 9RTok 9RTag 9Nest 9BText 9BMain 9Cls 9RDoc 9Final"
start=${1:-9}; go=0
for f in $ORDER; do
  [ "$f" = "$start" ] && go=1
  [ $go = 1 ] || continue
  s=$(date +%s)
  if ! timeout 1800 coqc -Q . RX Proofs/CstSound$f.v > /tmp/s9s/$f.log 2>&1; then echo "FAIL CstSound$f ($(( $(date +%s)-s )) s)"; grep -v conda /tmp/s9s/$f.log | tail -40; exit 1; fi
  echo "ok CstSound$f ($(( $(date +%s)-s )) s)"
done
