# per-file edits (applied AFTER the renames unless f.pre is set)
def fix_ge(s):
    # the name of a reference: an ASCII Name, ':' allowed
    s=rep1(s,'''      match goal with X : negb (mem_b 58 (x :: nm)) = true |- _ => rename X into H58 end.
''','')
    i=s.index('          apply negb_true_iff in H58.\n')
    j=s.index('        split; [|reflexivity].',i)
    s=s[:i]+'''          apply (name7_ascii x nm Hascf); [assumption|].
          apply forallb_forall. intros y0 Hy0. rewrite Forall_forall in Hascf. specialize (Hascf y0 (or_intror Hy0)).
          rewrite forallb_forall in Hnb. specialize (Hnb y0 (or_intror Hy0)). unfold name_byte in Hnb.
          apply orb_true_iff in Hnb. destruct Hnb as [Hb|Hb]; [lia|exact Hb]. }
'''+s[j:]
    return s
@edit('PEnt')
def _(s):
    s=fix_ge(s)
    # ge_value_decl (P's literal condition) is not used downstream
    i=s.index('Lemma ge_value_decl q cs')
    s=s[:i]
    return s
@edit('PRef')
def _(s):
    s=rep1(s,'match p with E.ERef n => CstU.wf_name n = true /\\ E.is_predef_name n = false | _ => True end.','match p with E.ERef n => wf_name7 n = true /\\ E.is_predef_name n = false | _ => True end.')
    return s
@edit('uEmb')
def _(s):
    # only the part on entries is used by the chain (the items are built directly with wf_uitem9 in BMain)
    i=s.index('Definition head_ok (cs : list uitem)')
    return s[:i]+'End Items.\n'
@edit('bLv')
def _(s):
    # of Section Lv of CstSound6bNest.v (levels of items as written): lev_ok, lev_nil, lev_item, lev_text only
    i=s.index('Notation sh := CstEntCBuild.sh.'); j=s.index('Section Lv.')
    h=s[:i]
    h=re.sub(r'From RX.Proofs Require Import CstSound6 CstSound6U CstSound6a CstSound6aFlat[^\n]*\n','From RX.Proofs Require Import CstSound6 CstSound6U CstSound6a.\n',h)
    h=h.replace(' CstSound6Val CstSound9uEmb.',' CstSound9uEmb.')
    a=s.index('Definition LvSem (opn'); b0=s.index('Lemma lev_nil sc')
    c=s.index('Lemma LvSem_upd opn'); d=s.index('Lemma lev_item sc')
    e=s.index('Lemma LvSem_close f'); k=s.index('End Lv.')
    return h+'Notation GoodT := CstSound9uEmb.GoodT.\n\n'+s[j:a]+s[b0:c]+s[d:e]+s[k:k+len('End Lv.\n')]
bLv=EDITS['bLv']
@edit('Cls')
def _(s):
    c=rd('CstSound6bCls.v')
    i=c.index('Lemma wf_up_60 q p'); j=c.index('Lemma wf_rc S d')
    t=ren(c[i:j])
    k=s.index('Lemma wf_rc9 ')
    return s[:k]+t+s[k:]
@edit('Flat')
def _(s):
    s=fix_ge(s)
    return s
@edit('Lex')
def _(s):
    s=rep1(s,'From RX.Proofs Require CstFullS9Text CstFullS7Main.\n','From RX.Proofs Require CstFullS9Text CstFullS7Main CstFullS7Lex.\n')
    i=s.index('Lemma name_run_stop l :')
    s=s[:i]+'''Lemma name_run_name7 : forall x l, forallb Chars.xml_NameChar x = true -> name_run (utf8s x ++ l) = utf8s x ++ name_run l.
Proof.
  induction x as [|c x IH]; intros l H; [reflexivity|]. cbn [forallb] in H. apply andb_true_iff in H. destruct H as [Hc Hx].
  destruct (CstFullS7Lex.name7_char_facts c Hc) as (Hs & Hn). rewrite utf8s_cons, <- app_assoc, (name_run_char c _ Hs Hn), (IH _ Hx), <- app_assoc.
  reflexivity.
Qed.
'''+s[i:]
    # the name of a general entity is a Name
    s=rep1(s,'    cbv iota in H. cbn [bind negb] in H. unfold nc_name in HN. apply negb_true_iff in HN.\n','    cbv iota in H. cbn [bind negb] in H.\n')
    # an external general entity: its name is colon-free (P6 of in_fragment_9)
    s=rep1(s,'''    + destruct EXT as (xid & nd & w3 & l' & -> & Hxid & Hnd & Hw3 & -> & _ & -> & HW8). inversion Hc1; subst c'.
''','''    + destruct EXT as (xid & nd & w3 & l' & -> & Hxid & Hnd & Hw3 & -> & _ & -> & HW8). inversion Hc1; subst c'.
      assert (Hnc : CstU.wf_name name = true).
      { apply (name7_nc name Hname).
        destruct (CstFullS7Lex.wf_name7_parts name Hname) as (cn & xn & En & _ & Hxn).
        assert (Enr : forall R, name_run (utf8s name ++ w2 ++ R) = utf8s name).
        { intros R. rewrite (name_run_name7 name _ ltac:(rewrite En; exact Hxn)).
          rewrite (name_run_stop (w2 ++ _)); [apply app_nil_r|].
          destruct w2; [congruence|]. cbn [app]. left. unfold Cst.wf_ws in Hw2. cbn [forallb] in Hw2. apply andb_true_iff in Hw2.
          destruct Hw2 as [Hz _]. exact (ws_space _ Hz). }
        unfold nc_name, drop_name in HN. rewrite Enr, skipn_len_app in HN.
        rewrite (skip_ws_ws w2 _ Hw2) in HN by (destruct xid; cbn; reflexivity).
        replace (is_lit (r_extid xid ++ r_opt r_ndata nd ++ w3 ++ [62] ++ l')) with false in HN by (destruct xid; reflexivity).
        cbn [orb] in HN. apply negb_true_iff in HN. exact HN. }
      clear HN. rename Hname into Hname7. rename Hnc into Hname.
''')
    s=rep1(s,'    destruct (consume_name_inv_p text _ _ _ _ HW2 HN Hnq) as (name & l3 & El1 & Hname & -> & -> & HW5).',
             '    destruct (consume_name_inv7 text _ _ _ _ HW2 Hnq) as (name & l3 & El1 & Hname & -> & -> & HW5 & Hscn).')
    s=rep1(s,'''      { intros R. destruct (wf_uname_parts name Hname) as (cn & xn & En & _ & Hxn).
        rewrite (name_run_uname name _ ltac:(rewrite En; exact Hxn)).''','''      { intros R. destruct (CstFullS7Lex.wf_name7_parts name Hname) as (cn & xn & En & _ & Hxn).
        rewrite (name_run_name7 name _ ltac:(rewrite En; exact Hxn)).''')
    return s
