#!/bin/sh
# tools/portcr/build.sh -- regenerates and compiles, in order, the chain of Proofs/CstSoundCrFinal.v
# (needs the stage-8 chain CstSound8*.vo).  Stops at the first failure.
set -e
cd /verif/coq
python3 /verif/tools/portcr/port2.py
python3 /verif/tools/portcr/port3.py
for f in CstSoundCr CstSoundCrLex CstSoundCrLex2 CstSoundCrText CstSoundCrRText CstSoundCrRTok CstSoundCrRTag \
         CstSoundCrBText CstSoundCrDoc CstSoundCrBMain CstSoundCrRDoc CstSoundCrFinal; do
  s=$(date +%s.%N)
  timeout 900 coqc -Q . RX Proofs/$f.v > /tmp/portcr_$f.log 2>&1 || { echo "FAILED $f"; tail -20 /tmp/portcr_$f.log; exit 1; }
  e=$(date +%s.%N)
  printf "%-18s %5.1f s\n" $f $(echo "$e - $s" | bc)
done
