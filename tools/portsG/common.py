"""tools/portsG/common.py -- helpers shared by the CstRangeG7..G10 generators."""
import re, sys
COQ = '/verif/coq/Proofs'
IDENT = re.compile(r"[A-Za-z_][A-Za-z0-9_']*")

def ren(s, table):
    """rename whole identifiers (the components of a qualified name are renamed one by one)"""
    return IDENT.sub(lambda m: table.get(m.group(0), m.group(0)), s)

def rep(s, old, new, count=1, who=''):
    n = s.count(old)
    if count is None:
        if n == 0: sys.exit('%s: %r not found' % (who, old))
    elif n != count:
        sys.exit('%s: %r found %d times, expected %d' % (who, old, n, count))
    return s.replace(old, new)

def header_end(s):
    depth = 0; i = 0
    while True:
        if s.startswith('(*', i): depth += 1; i += 2
        elif s.startswith('*)', i):
            depth -= 1; i += 2
            if depth == 0: return i
        else: i += 1

def read(name):
    return open('%s/%s.v' % (COQ, name)).read()

def body(name):
    s = read(name)
    return s[header_end(s):]

def write(name, text):
    open('%s/%s.v' % (COQ, name), 'w').write(text)
