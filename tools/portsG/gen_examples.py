#!/usr/bin/env python3
"""tools/portsG/gen_examples.py -- generate coq/Proofs/CstRangeG{7,8,9,10}Example.v: for each stage, documents that are in the
stage and not in the previous one; the description of CstRangeG6Defs.v evaluated on them (vm_compute) against the model's parse,
and the three theorems of the stage applied to the sample document of the stage (all hypotheses discharged by computation)."""
import sys, os
sys.path.insert(0, os.path.dirname(os.path.abspath(__file__)))
from common import *

ST = {
 '7': dict(prev='6', what="CR in comment bodies and PI values, colons in PI targets and in the DOCTYPE name",
   sanity='CstFullS6Sanity CstFullS7Sanity', spec='CstFullS6 CstFullS7',
   exdoc='''(* ex7 (Proofs/CstFullS7Sanity.v):
   <!--x CR LF y CR--><?a:b?><!DOCTYPE :d:t[ <!--..--><?:p::q a CR b?> <!ENTITY m "<!--..--><?t:u v CR LF?><y><!--CR--></y >">]>
   <?x: CR v?><r>&m;<!--CR LF--><?p x CR?></r ><!--..-->
   the comments and PIs of the markup entity m are nodes with ranges inside its literal (77..118) *)''',
   exnodes='''[((0, 12), XS (TSComment (4, 9))); ((13, 20), XS (TSPI (15, 18) None));
     ((36, 48), XS (TSComment (40, 45))); ((49, 63), XS (TSPI (51, 56) (Some (57, 61))));
     ((124, 133), XS (TSPI (126, 128) (Some (130, 131)))); ((133, 163), XS (TSElem (134, 135)));
     ((77, 89), XS (TSComment (81, 86))); ((89, 100), XS (TSPI (91, 94) (Some (95, 98))));
     ((100, 118), XS (TSElem (101, 102))); ((104, 112), XS (TSComment (108, 109)));
     ((140, 149), XS (TSComment (144, 146))); ((149, 157), XS (TSPI (151, 152) (Some (153, 155))));
     ((163, 175), XS (TSComment (167, 172)))]''',
   tdoc='''(* <!DOCTYPE r[ <!ENTITY m "<!--x CR y--><?a:b x CR?>">]><r>&m;<!--CR--></r> *)
Definition t7 := with_sub [xe (b "m") [@IComment epieces [120; 13; 121]; @IPI epieces (b "a:b") [32] [120; 13]]]
                          (el0 (b "r") [] [tx [rf (b "m")]; @IComment epieces [13]]).''',
   tnodes='''[((51, 69), XS (TSElem (52, 53))); ((26, 36), XS (TSComment (30, 33)));
     ((36, 46), XS (TSPI (38, 41) (Some (42, 44)))); ((57, 65), XS (TSComment (61, 62)))]'''),
 '8': dict(prev='7', what="the character % in the literal of a general internal entity",
   sanity='CstFullS6Sanity CstFullS8Sanity', spec='CstFullS6 CstFullS7 CstFullS8',
   exdoc='''(* ex8 (Proofs/CstFullS8Sanity.v):
   <!DOCTYPE r[ <!ENTITY % p 'x'> <!ENTITY e "100%"> <!ENTITY f "a%p;b% %%"> <!ENTITY u "urn:%41">
                <!ENTITY m "<y k='%p;&e;'/>%<!--%p;--><?t %?>">]><p:r xmlns:p="&u;" a="&f;%">&e; &f;&m;</p:r >
   the Text node "100% a%p;b% %%" is Owned with the range of the literal of e (its first fragment); the '%' after
   <y/> inside m is a Borrowed Text node of one byte inside the literal of m *)''',
   exnodes='''[((156, 204), XS (TSElem (159, 160))); ((44, 48), XSOwnedText);
     ((115, 133), XS (TSElem (116, 117))); ((133, 134), XS (TSText (TBorrowed (133, 134))));
     ((134, 144), XS (TSComment (138, 141))); ((144, 151), XS (TSPI (146, 147) (Some (148, 149))))]''',
   tdoc='''(* <!DOCTYPE r[ <!ENTITY e "100%">]><r>&e;</r> : the Text node is Borrowed, a slice of the literal *)
Definition t8 := with_sub [xt (b "e") [lit (b "100%")]] (el0 (b "r") [] [tx [rf (b "e")]]).''',
   tnodes='''[((35, 45), XS (TSElem (36, 37))); ((26, 30), XS (TSText (TBorrowed (26, 30))))]'''),
 '9': dict(prev='8', what="a ':' in the name of an entity",
   sanity='CstFullS6Sanity CstFullS8Sanity CstFullS9Sanity', spec='CstFullS6 CstFullS7 CstFullS8 CstFullS9',
   exdoc='''(* ex9 (Proofs/CstFullS9Sanity.v): entities a:b, ab, :ab, u:, <na>::<na>, m:k: (markup), a:b declared twice;
   referenced from an attribute value, a namespace URI and character data *)''',
   exnodes='''[((210, 293), XS (TSElem (213, 214))); ((30, 31), XSOwnedText);
     ((153, 174), XS (TSElem (154, 155))); ((73, 77), XSOwnedText)]''',
   tdoc='''(* <!DOCTYPE r[ <!ENTITY a:b "x"> <!ENTITY :m "<y/>">]><r>&a:b;&:m;</r> *)
Definition t9 := with_sub [xt (b "a:b") [lit (b "x")]; xe (b ":m") [em0 (b "y")]] (el0 (b "r") [] [tx [rf (b "a:b"); rf (b ":m")]]).''',
   tnodes='''[((56, 72), XS (TSElem (57, 58))); ((28, 29), XS (TSText (TBorrowed (28, 29)))); ((47, 51), XS (TSElem (48, 49)))]'''),
 '10': dict(prev='9', what="character references to '&' and '<' in the literal of an entity",
   sanity='CstFullS6Sanity CstFullS8Sanity CstFullS9Sanity CstFullS10Sanity', spec='CstFullS6 CstFullS7 CstFullS8 CstFullS9 CstFullS10',
   exdoc='''(* ex10 (Proofs/CstFullS10Sanity.v): <!ENTITY amp2 "&#38;"> <!ENTITY lt2 "&#x3C;"> <!ENTITY esc "&#38;lt;b&#x26;gt;">
   <!ENTITY num "&#38;#60;"> <!ENTITY tag "&#60;b/>&lt2;&amp2;"> and a markup entity m with such references in an attribute
   value, a namespace URI and its text.  A literal with a character reference contains '&', so the text it yields is
   Owned; its range is the literal of the FIRST entity of the run (29..34 = the literal of amp2) *)''',
   exnodes='''[((288, 383), XS (TSElem (289, 290))); ((29, 34), XSOwnedText);
     ((369, 374), XS (TSElem (370, 371))); ((179, 256), XS (TSElem (180, 181))); ((228, 250), XSOwnedText)]''',
   tdoc='''(* <!DOCTYPE r[ <!ENTITY e "x&#38;y"> <!ENTITY f "&#60;b/>">]><r>&e;<q/>&f;</r> :
   two Owned Text nodes ("x&y" and "<b/>") whose ranges are the literals of e and of f *)
Definition t10 := with_sub [xt (b "e") [lit (b "x"); dref "38"; lit (b "y")]; xt (b "f") [dref "60"; lit (b "b/>")]]
                           (el0 (b "r") [] [tx [rf (b "e")]; em0 (b "q"); tx [rf (b "f")]]).''',
   tnodes='''[((63, 80), XS (TSElem (64, 65))); ((26, 33), XSOwnedText); ((69, 73), XS (TSElem (70, 71))); ((50, 58), XSOwnedText)]'''),
}

TEMPLATE = r'''(* Proofs/CstRangeG@N@Example.v -- C13 / C18 on the capstone fragment, stage S@N@ (Spec/CstFullS@N@.v: @WHAT@): the description of
   CstRangeG6Defs.v (unchanged since stage S6) evaluated on documents that are in stage S@N@ and not in stage S@P@, against
   the model's parse (vm_compute); the theorems of CstRangeG@N@.v applied to the sample document of the stage.
   Generated by tools/portsG/gen_examples.py; do not edit by hand. *)
From Coq Require Import Ascii String.
From Coq Require Import List NArith Bool Lia.
Import ListNotations.
From RX Require Import Generated.
From RX.Model Require Import Base Stream Tokenizer Doc Builder Parse Api.
From RX.Spec Require CstNs CstU CstEnt.
From RX.Spec Require Import Text CstFull CstFullS4 @SPEC@.
From RX.Proofs Require Import CstNsView CstFullMain @SANITY@.
From RX.Proofs Require Import CstRangeDefs CstRangeTDefs CstRangeEDefs CstRangeFDefs CstRangeGDefs CstRangeG6Defs CstRangeG6Build.
From RX.Proofs Require CstRangeG6 CstRangeG@N@.
Import CstRangeG6.ExamplesF6.     (* kd, obs, expd; xe, xt, el0, em0 *)
Open Scope N_scope.

Ltac splits := match goal with |- _ /\ _ => split; [|splits] | _ => idtac end.

@EXDOC@
Theorem ex@N@_wider : S@N@.wf_doc ex@N@ = true /\ S@P@.wf_doc ex@N@ = false.
Proof. split; vm_compute; reflexivity. Qed.

Example ex@N@_obs : obs ex@N@ = expd ex@N@ /\
  fnodes6 ex@N@ =
    @EXNODES@.
Proof. split; vm_compute; reflexivity. Qed.

@TDOC@
Example t@N@_obs : S@N@.wf_doc t@N@ = true /\ S@P@.wf_doc t@N@ = false /\ obs t@N@ = expd t@N@ /\
  fnodes6 t@N@ =
    @TNODES@.
Proof. splits; vm_compute; reflexivity. Qed.

(* the three theorems applied to ex@N@: whatever document the parser returns has these ranges, this storage and these
   attribute ranges ([ex@N@_obs]: it does return one) *)
Example ex@N@_predicted : forall doc, parse (S6.render ex@N@) opt_dtd = Ok doc ->
  map nd_range (tl (d_nodes doc)) = map fst (
    @EXNODES@) /\
  Forall2 CstRangeG6.stored_as_6 (map nd_kind (tl (d_nodes doc))) (fshapes6 ex@N@) /\
  map (fun a => (ad_range a, attr_range_qname a, attr_range_value a)) (d_attrs doc) =
  map (fun s => (fa_range s, fa_qname s, Ok (fa_value s))) (fattr_spans6 ex@N@).
Proof.
  intros doc H.
  assert (Hwf : S@N@.wf_doc ex@N@ = true) by (vm_compute; reflexivity).
  assert (Hdtd : S6.has_dtd ex@N@ = true -> allow_dtd opt_dtd = true) by (intros _; reflexivity).
  assert (H1 : N.of_nat (length (S6.sem ex@N@)) < nodes_limit opt_dtd) by (vm_compute; reflexivity).
  assert (H2 : N.of_nat (length (S6.sem ex@N@)) < u32_max) by (vm_compute; reflexivity).
  assert (H3 : N.of_nat (S6.nattrs ex@N@) < u32_max) by (vm_compute; reflexivity).
  assert (Hd : S6.distinct_decls_le ex@N@ (N.to_nat 65535)).
  { unfold S6.distinct_decls_le, X4.S4.distinct_decls_le.
    match goal with |- match ?x with _ => _ end => let y := eval vm_compute in x in change x with y end.
    apply distinct_by_count.
    match goal with |- (length ?l <= _)%nat => let n := eval vm_compute in (length l) in change (length l) with n end. lia. }
  assert (Hc : 1 + N.of_nat (S6.ns_cost ex@N@) <= u32_max) by (vm_compute; intros X; discriminate X).
  assert (Hs : fattrs_small6 ex@N@).
  { unfold fattrs_small6.
    match goal with |- Forall _ ?l => let y := eval vm_compute in l in change l with y end.
    repeat constructor; vm_compute; intros X; discriminate X. }
  destruct (CstRangeG@N@.parse_render_ranges_f@N@ ex@N@ opt_dtd doc Hwf Hdtd H1 H2 H3 Hd Hc H) as (R & _ & _).
  destruct (CstRangeG@N@.parse_render_storage_f@N@ ex@N@ opt_dtd doc Hwf Hdtd H1 H2 H3 Hd Hc H) as (St & _ & _).
  pose proof (CstRangeG@N@.parse_render_attr_ranges_f@N@ ex@N@ opt_dtd doc Hwf Hdtd H1 H2 H3 Hd Hc Hs H) as A.
  split; [rewrite R; vm_compute; reflexivity|]. split; [exact St|exact A].
Qed.

Print Assumptions ex@N@_wider.
Print Assumptions ex@N@_obs.
Print Assumptions t@N@_obs.
Print Assumptions ex@N@_predicted.
'''

def gen(n):
    d = ST[n]
    s = TEMPLATE
    for k, v in (('@N@', n), ('@P@', d['prev']), ('@WHAT@', d['what']), ('@SPEC@', d['spec']), ('@SANITY@', d['sanity']),
                 ('@EXDOC@', d['exdoc']), ('@EXNODES@', d['exnodes']), ('@TDOC@', d['tdoc']), ('@TNODES@', d['tnodes'])):
        s = s.replace(k, v)
    write('CstRangeG%sExample' % n, s)

if __name__ == '__main__':
    for n in (sys.argv[1:] or ['7', '8', '9', '10']): gen(n)
    print(' '.join('Proofs/CstRangeG%sExample.v' % n for n in ['7', '8', '9', '10']))
