#!/bin/sh
# tools/portsG/build.sh -- regenerate and compile the CstRangeG7..G11 files (C13 / C18 on stages S7..S11), in order.
set -e
mkdir -p /tmp/sG
H=$(dirname "$0")
python3 $H/gen_misc.py; python3 $H/gen7.py; python3 $H/gen8.py; python3 $H/genN.py 9; python3 $H/genN.py 10; python3 $H/gen_examples.py; python3 $H/gen11.py
cd /verif/coq
for f in G7Misc G7Text G7Items G7Dtd G7Doc G7 G7Example \
         G8Dtd G8Doc G8 G8Example \
         G9aText G9aFrags G9Frags G9TText G9Sem G9Text G9Items G9Dtd G9Doc G9 G9Example \
         G10aText G10aFrags G10Frags G10TText G10Sem G10Text G10Items G10Dtd G10Doc G10 G10Example \
         G11Text G11Items G11Dtd G11Doc G11 G11Example; do
  s=$(date +%s.%N)
  timeout 900 coqc -Q . RX Proofs/CstRange$f.v > /tmp/sG/$f.log 2>&1 || { echo "FAILED $f"; tail -20 /tmp/sG/$f.log; exit 1; }
  e=$(date +%s.%N)
  printf "Proofs/CstRange%s.v  %.1fs  closed=%s other=%s\n" $f $(echo "$e - $s" | bc) $(grep -c "Closed under the global context" /tmp/sG/$f.log) $(grep -c -i "axiom\|Admitted" /tmp/sG/$f.log)
done
