#!/bin/bash
# regenerate (port.py) and compile the stage-11 union + accounting chain in order, stop at the first failure:  build.sh [first-file]
# needs the stage-11 chain (tools/port11s/build.sh) and the stage-10 union / accounting chain (tools/port10e/build.sh) compiled.
cd /verif/coq; mkdir -p /tmp/s11e/log
python3 /verif/tools/port11e/port.py || exit 1
ORDER="All11 11eNest 11eBText 11eBMain 11eRDoc 11eCor All11Cor"
start=${1:-All11}; go=0
for f in $ORDER; do
  [ "$f" = "$start" ] && go=1
  [ $go = 1 ] || continue
  s=$(date +%s)
  if ! timeout 1800 coqc -Q . RX Proofs/CstSound$f.v > /tmp/s11e/log/$f.log 2>&1; then echo "FAIL CstSound$f ($(( $(date +%s)-s )) s)"; grep -v conda /tmp/s11e/log/$f.log | tail -40; exit 1; fi
  echo "ok CstSound$f ($(( $(date +%s)-s )) s)"
done
