#!/bin/bash
# Self-test (not a registered check): every seeded change must be reported by the checks listed in
# its meta.json.  Runs in scratch copies; /repo and /verif are not touched.
#   tools/selftest.sh [id ...]     (default: all of seeded/)
cd "$(dirname "$0")/.."
ids=("$@"); [ ${#ids[@]} -eq 0 ] && ids=($(ls seeded))
pass=0; fail=0
for id in "${ids[@]}"; do
  props=$(python3 -c "import json;print(' '.join(p.split(' ')[0] for p in json.load(open('seeded/$id/meta.json'))['detected_by_checks']))")
  out=$(tools/mutant_test.sh seeded/$id/patch.diff quick $props 2>&1)
  bad=""
  for p in $props; do
    echo "$out" | grep -q "^$p exit=1" || bad="$bad $p"
  done
  if [ -z "$bad" ]; then echo "DETECTED $id by $props"; pass=$((pass+1)); else echo "MISSED   $id by$bad"; fail=$((fail+1)); fi
done
echo "selftest: $pass detected, $fail missed"
