#!/bin/bash
# Confirms a seeded change in a scratch worktree: applies, compiles, the existing suite passes
# with it, the demonstration fails with it and passes without it.
#   tools/confirm_seed.sh <dir with patch.diff demo.rs> ; prints CONFIRMED or the reason
d=$(readlink -f "$1")
wt=$(mktemp -d /tmp/cs-XXXXXX)
trap 'git -C /repo worktree remove --force "$wt/repo" >/dev/null 2>&1; rm -rf "$wt"' EXIT
git -C /repo worktree add --detach "$wt/repo" HEAD >/dev/null 2>&1 || { echo "FAIL worktree"; exit 1; }
cd "$wt/repo"
export CARGO_NET_OFFLINE=true
cp "$d/demo.rs" tests/zz_demo.rs
# without the change: demo passes
if ! cargo test --offline --test zz_demo >"$wt/demo_clean.log" 2>&1; then echo "FAIL demo does not pass on the unmodified tree"; tail -5 "$wt/demo_clean.log"; exit 1; fi
git apply "$d/patch.diff" || { echo "FAIL patch does not apply"; exit 1; }
if cargo test --offline --test zz_demo >"$wt/demo_mut.log" 2>&1; then echo "FAIL demo passes with the change"; exit 1; fi
grep -q "error\[" "$wt/demo_mut.log" && { echo "FAIL does not compile"; exit 1; }
rm tests/zz_demo.rs
out=$(cargo test --offline 2>&1)
if echo "$out" | grep -qE "test result: FAILED|error(\[|:)"; then echo "FAIL existing suite fails with the change"; echo "$out" | grep -E "FAILED|failed" | head -5; exit 1; fi
n=$(echo "$out" | grep -E "^test result: ok" | sed -E 's/.*ok\. ([0-9]+) passed.*/\1/' | paste -sd+ | bc)
echo "CONFIRMED existing tests passed: $n; demo fails with the change and passes without"
