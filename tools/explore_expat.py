"""Exploration aid, not a registered check: runs the crate (harness dump) and python's expat (namespace mode) on the
union of several property corpora and prints every acceptance disagreement by class.  Used to look for inputs the
crate accepts and a conforming processor rejects (C08) beyond the documented leniencies; see DESIGN 11.10."""
import sys, os, collections
sys.path.insert(0, '/verif/tools')
import props, rxlib
import xml.parsers.expat as E
cases = props.c01_cases("quick", 1) + props.c16_cases("quick", 1) + props.c03_cases("quick", 1) + props.c14_cases("quick", 1)
# unique inputs with allow_dtd
seen = {}
for c in cases:
    if c.dtd and c.limit == rxlib.U32MAX and c.data not in seen:
        seen[c.data] = c
cs = [rxlib.Case(d, "", True) for d in seen]
print(len(cs), "unique inputs")
harness = os.path.join(rxlib.HARNESS, "target", "release", "rxharness")
res = rxlib.run_sharded(harness, ["dump"], cs, "/tmp/explore-expat-work", "dx")
def expat_ok(data):
    p = E.ParserCreate(namespace_separator=' ')
    try:
        p.Parse(data, True)
        return True, ""
    except E.ExpatError as e:
        return False, E.ErrorString(e.code)
    except Exception as e:
        return False, "exc " + str(e)
cat = collections.Counter(); ex = collections.defaultdict(list)
for i, c in enumerate(cs):
    r = res.get(i, [])
    rc = rxlib.result_class(r)
    try:
        c.data.decode('utf-8')
    except UnicodeDecodeError:
        continue
    ok, why = expat_ok(c.data)
    if rc == "ok" and not ok:
        asc = all(b < 128 for b in c.data)
        cat["crate accepts, expat rejects: " + why + (" [ascii]" if asc else " [non-ascii]")] += 1; ex["A " + why + (" ascii" if asc else " nonascii")].append(c.data)
    elif rc == "err" and ok:
        e = [l for l in r if l.startswith("E ")]
        k = e[0].split(" ")[1] if e else "?"
        cat["crate rejects (%s), expat accepts" % k] += 1; ex["R " + k].append(c.data)
for k, v in cat.most_common(): print(v, k)
import json
json.dump({k: [x.decode('utf-8', 'replace') for x in sorted(v, key=len)[:12]] for k, v in ex.items()}, open('/tmp/explore-expat-examples.json', 'w'), indent=1, ensure_ascii=False)
