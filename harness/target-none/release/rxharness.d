/verif/harness/target-none/release/rxharness: /repo/src/lib.rs /repo/src/parse.rs /repo/src/tokenizer.rs /verif/harness/src/main.rs
