// Correspondence harness: runs roxmltree (built from /repo's working tree) on a cases file
// and prints a canonical line-oriented dump.  The extracted Coq model prints the same format
// (ocaml/driver.ml); tools compare them section by section.
//
// cases file: one case per line:   <idx> <flags> <allow_dtd 0|1> <nodes_limit> <hex input>
// modes:  dump <cases>            all cases in-process, each under catch_unwind
//         isolated <cases>        one child process per case (1 MiB stack thread, time limit)
//         child <flags> <dtd> <limit> <hexfile>   (internal)
//         threads <cases> <nthreads> <reps>
use std::collections::HashSet;
use std::fmt::Write as FmtWrite;
use std::io::{BufRead, BufWriter, Write};

use roxmltree::{Document, Error, Node, NodeId, NodeType, ParsingOptions, StringStorage};

fn hex(s: &[u8]) -> String {
    let mut o = String::with_capacity(1 + 2 * s.len());
    o.push('x');
    for b in s {
        write!(o, "{:02x}", b).unwrap();
    }
    o
}
fn unhex(s: &str) -> Vec<u8> {
    let s = s.strip_prefix('x').unwrap_or(s);
    (0..s.len() / 2).map(|i| u8::from_str_radix(&s[2 * i..2 * i + 2], 16).unwrap()).collect()
}
fn opt_hex(s: Option<&str>) -> String {
    match s {
        Some(s) => hex(s.as_bytes()),
        None => "-".into(),
    }
}
fn oid(n: Option<Node>) -> i64 {
    n.map(|n| n.id().get() as i64).unwrap_or(-1)
}
fn off(input: &str, s: &str) -> i64 {
    let base = input.as_ptr() as usize;
    let p = s.as_ptr() as usize;
    if p >= base && p + s.len() <= base + input.len() {
        (p - base) as i64
    } else {
        -1
    }
}
fn kind_c(n: &Node) -> char {
    match n.node_type() {
        NodeType::Root => 'R',
        NodeType::Element => 'E',
        NodeType::PI => 'P',
        NodeType::Comment => 'C',
        NodeType::Text => 'T',
    }
}

fn error_line(e: &Error) -> String {
    let p = e.pos();
    let (name, payload): (&str, Vec<String>) = match e {
        Error::InvalidXmlPrefixUri(_) => ("InvalidXmlPrefixUri", vec![]),
        Error::UnexpectedXmlUri(_) => ("UnexpectedXmlUri", vec![]),
        Error::UnexpectedXmlnsUri(_) => ("UnexpectedXmlnsUri", vec![]),
        Error::InvalidElementNamePrefix(_) => ("InvalidElementNamePrefix", vec![]),
        Error::DuplicatedNamespace(s, _) => ("DuplicatedNamespace", vec![hex(s.as_bytes())]),
        Error::UnknownNamespace(s, _) => ("UnknownNamespace", vec![hex(s.as_bytes())]),
        Error::UnexpectedCloseTag(a, b, _) => ("UnexpectedCloseTag", vec![hex(a.as_bytes()), hex(b.as_bytes())]),
        Error::UnexpectedEntityCloseTag(_) => ("UnexpectedEntityCloseTag", vec![]),
        Error::UnknownEntityReference(s, _) => ("UnknownEntityReference", vec![hex(s.as_bytes())]),
        Error::MalformedEntityReference(_) => ("MalformedEntityReference", vec![]),
        Error::EntityReferenceLoop(_) => ("EntityReferenceLoop", vec![]),
        Error::InvalidAttributeValue(_) => ("InvalidAttributeValue", vec![]),
        Error::DuplicatedAttribute(s, _) => ("DuplicatedAttribute", vec![hex(s.as_bytes())]),
        Error::NoRootNode => ("NoRootNode", vec![]),
        Error::UnclosedRootNode => ("UnclosedRootNode", vec![]),
        Error::UnexpectedDeclaration(_) => ("UnexpectedDeclaration", vec![]),
        Error::DtdDetected => ("DtdDetected", vec![]),
        Error::NodesLimitReached => ("NodesLimitReached", vec![]),
        Error::AttributesLimitReached => ("AttributesLimitReached", vec![]),
        Error::NamespacesLimitReached => ("NamespacesLimitReached", vec![]),
        Error::InvalidName(_) => ("InvalidName", vec![]),
        Error::NonXmlChar(c, _) => ("NonXmlChar", vec![(*c as u32).to_string()]),
        Error::InvalidChar(a, b, _) => ("InvalidChar", vec![a.to_string(), b.to_string()]),
        Error::InvalidChar2(a, b, _) => ("InvalidChar2", vec![hex(a.as_bytes()), b.to_string()]),
        Error::InvalidString(a, _) => ("InvalidString", vec![hex(a.as_bytes())]),
        Error::InvalidExternalID(_) => ("InvalidExternalID", vec![]),
        Error::InvalidComment(_) => ("InvalidComment", vec![]),
        Error::InvalidCharacterData(_) => ("InvalidCharacterData", vec![]),
        Error::UnknownToken(_) => ("UnknownToken", vec![]),
        Error::UnexpectedEndOfStream => ("UnexpectedEndOfStream", vec![]),
    };
    let mut s = format!("E {} {} {}", name, p.row, p.col);
    for x in payload {
        s.push(' ');
        s.push_str(&x);
    }
    s
}

// the position carried by the variant itself (Error::pos() must report exactly this one)
fn error_variant_pos(e: &Error) -> Option<roxmltree::TextPos> {
    match e {
        Error::InvalidXmlPrefixUri(p)
        | Error::UnexpectedXmlUri(p)
        | Error::UnexpectedXmlnsUri(p)
        | Error::InvalidElementNamePrefix(p)
        | Error::DuplicatedNamespace(_, p)
        | Error::UnknownNamespace(_, p)
        | Error::UnexpectedCloseTag(_, _, p)
        | Error::UnexpectedEntityCloseTag(p)
        | Error::UnknownEntityReference(_, p)
        | Error::MalformedEntityReference(p)
        | Error::EntityReferenceLoop(p)
        | Error::InvalidAttributeValue(p)
        | Error::DuplicatedAttribute(_, p)
        | Error::UnexpectedDeclaration(p)
        | Error::InvalidName(p)
        | Error::NonXmlChar(_, p)
        | Error::InvalidChar(_, _, p)
        | Error::InvalidChar2(_, _, p)
        | Error::InvalidString(_, p)
        | Error::InvalidExternalID(p)
        | Error::InvalidComment(p)
        | Error::InvalidCharacterData(p)
        | Error::UnknownToken(p) => Some(*p),
        Error::NoRootNode
        | Error::UnclosedRootNode
        | Error::DtdDetected
        | Error::NodesLimitReached
        | Error::AttributesLimitReached
        | Error::NamespacesLimitReached
        | Error::UnexpectedEndOfStream => None,
    }
}

// "EV r c": the variant's own position; "ED r c": the position the Display text ends with ("... at r:c")
fn error_pos_lines(e: &Error) -> (String, String) {
    let ev = match error_variant_pos(e) {
        Some(p) => format!("EV {} {}", p.row, p.col),
        None => "EV - -".to_string(),
    };
    let txt = format!("{}", e);
    let mut ed = "ED - -".to_string();
    if let Some(i) = txt.rfind(" at ") {
        let tail = &txt[i + 4..];
        let mut it = tail.split(':');
        if let (Some(a), Some(b), None) = (it.next(), it.next(), it.next()) {
            if let (Ok(r), Ok(c)) = (a.parse::<u32>(), b.parse::<u32>()) {
                ed = format!("ED {} {}", r, c);
            }
        }
    }
    (ev, ed)
}

fn storage_kind(s: &StringStorage) -> char {
    match s {
        StringStorage::Borrowed(_) => 'B',
        StringStorage::Owned(_) => 'O',
    }
}

const WMAX: usize = 4;

// all words over {F,B} of length 1..=maxlen, in length-then-lexicographic order (F < B)
fn fb_words(maxlen: usize) -> Vec<Vec<u8>> {
    let mut out = vec![];
    for l in 1..=maxlen {
        for m in 0..(1usize << l) {
            let mut w = vec![];
            for i in 0..l {
                w.push(if (m >> (l - 1 - i)) & 1 == 0 { b'F' } else { b'B' });
            }
            out.push(w);
        }
    }
    out
}

// scripts with nth / len; tokens: F B L N<k>
const SCRIPTS: &[&str] = &["L", "N0 L", "N1 F L", "F N1 B L", "B N0 L", "N2 L", "N5 L F", "F B L", "B B N1 L", "R0 L", "R1 B L", "F R1 F L", "R2 L F", "N1 R1 L", "R5 L B", "C T", "F C T", "B T C", "N1 C T", "R1 T C",
    "B N0 F", "B N1 L", "B B N2 L", "B B N0 F L", "B B B N3 L", "F B N1 L", "N3 L", "B B N3 L", "B N2 F L"];

fn run_deque<I, T, F>(mk: &dyn Fn() -> I, ident: F, exact: bool, out: &mut String)
where
    I: DoubleEndedIterator<Item = T> + Clone,
    F: Fn(&T) -> i64,
{
    let fw: Vec<i64> = mk().map(|x| ident(&x)).collect();
    write!(out, " {}", fw.len()).unwrap();
    let maxlen = std::cmp::min(fw.len() + 2, WMAX);
    for w in fb_words(maxlen) {
        let mut it = mk();
        out.push(' ');
        out.push_str(std::str::from_utf8(&w).unwrap());
        out.push('=');
        for (k, op) in w.iter().enumerate() {
            let r = if *op == b'F' { it.next() } else { it.next_back() };
            if k > 0 {
                out.push('.');
            }
            write!(out, "{}", r.map(|x| ident(&x)).unwrap_or(-1)).unwrap();
        }
    }
    for sc in SCRIPTS {
        let mut it = mk();
        out.push(' ');
        out.push_str(&sc.replace(' ', ""));
        out.push('=');
        for (k, tok) in sc.split(' ').enumerate() {
            if k > 0 {
                out.push('.');
            }
            match tok.as_bytes()[0] {
                b'F' => write!(out, "{}", it.next().map(|x| ident(&x)).unwrap_or(-1)).unwrap(),
                b'B' => write!(out, "{}", it.next_back().map(|x| ident(&x)).unwrap_or(-1)).unwrap(),
                b'N' => {
                    let n: usize = tok[1..].parse().unwrap();
                    write!(out, "{}", it.nth(n).map(|x| ident(&x)).unwrap_or(-1)).unwrap()
                }
                // count() and last() of a copy (provided methods an iterator may override)
                b'C' => write!(out, "{}", it.clone().count()).unwrap(),
                b'T' => write!(out, "{}", it.clone().last().map(|x| ident(&x)).unwrap_or(-1)).unwrap(),
                b'R' => {
                    let n: usize = tok[1..].parse().unwrap();
                    write!(out, "{}", it.nth_back(n).map(|x| ident(&x)).unwrap_or(-1)).unwrap()
                }
                b'L' => {
                    if exact {
                        let (lo, hi) = it.size_hint();
                        // ExactSizeIterator::len() asserts lo == hi
                        write!(out, "{}/{}", lo, hi.map(|h| h as i64).unwrap_or(-1)).unwrap()
                    } else {
                        // not an exact-size iterator: count the remaining items
                        write!(out, "{}/{}", it.clone().count(), it.clone().count()).unwrap()
                    }
                }
                _ => unreachable!(),
            }
        }
    }
}

// the answers of the cheap navigation accessors for one node (ids, -1 = None)
fn hammer_answers(doc: &Document, nd: &Node) -> [i64; 8] {
    [
        oid(nd.first_element_child()),
        oid(nd.last_element_child()),
        oid(nd.next_sibling_element()),
        oid(nd.prev_sibling_element()),
        oid(nd.parent_element()),
        oid(nd.first_child()),
        oid(nd.children().nth(1)),
        doc.root_element().id().get() as i64,
    ]
}

fn ids<'a, 'i: 'a, I: Iterator<Item = Node<'a, 'i>>>(it: I) -> String {
    let mut s = String::new();
    for n in it {
        write!(s, " {}", n.id().get()).unwrap();
    }
    s
}

fn dump_doc(idx: &str, flags: &str, input: &str, opt: ParsingOptions, doc: &Document, o: &mut String) {
    let n = doc.descendants().count();
    if flags.contains('n') {
        for node in doc.descendants() {
            writeln!(
                o,
                "{} N {} {} {} {} {} {} {} {}",
                idx,
                node.id().get(),
                kind_c(&node),
                oid(node.parent()),
                oid(node.prev_sibling()),
                oid(node.next_sibling()),
                oid(node.first_child()),
                oid(node.last_child()),
                node.descendants().count()
            )
            .unwrap();
        }
        // NK: the kind predicates, the id conversions and the storage accessors must agree with node_type() / id() / text() / tail()
        // (counts disagreements; 0 for a consistent API)
        let mut nk = 0usize;
        for node in doc.descendants() {
            let t = node.node_type();
            let preds = [
                (node.is_root(), t == NodeType::Root),
                (node.is_element(), t == NodeType::Element),
                (node.is_pi(), t == NodeType::PI),
                (node.is_comment(), t == NodeType::Comment),
                (node.is_text(), t == NodeType::Text),
            ];
            nk += preds.iter().filter(|(a, b)| a != b).count();
            if node.id().get_usize() != node.id().get() as usize || NodeId::new(node.id().get()) != node.id() {
                nk += 1;
            }
            if node.text_storage().map(|s| s.as_str()) != node.text() || node.tail_storage().map(|s| s.as_str()) != node.tail() {
                nk += 1;
            }
            if node.document().get_node(node.id()).map(|x| x.node_type()) != Some(t) {
                nk += 1;
            }
            if (node.pi().is_some()) != (t == NodeType::PI) {
                nk += 1;
            }
            // attributes: == is equality of (namespace, name, value); storage and string views agree; names compare as pairs
            let attrs: Vec<_> = node.attributes().take(8).collect();
            for (i, a) in attrs.iter().enumerate() {
                if a.value_storage().as_str() != a.value() || a.value_storage() != &StringStorage::Borrowed(a.value()) {
                    nk += 1;
                }
                for (j, b) in attrs.iter().enumerate() {
                    let same = (a.namespace(), a.name(), a.value()) == (b.namespace(), b.name(), b.value());
                    if (a == b) != same || (a != b) == same || (i == j && !same) {
                        nk += 1;
                    }
                }
                if node.attribute_node((a.namespace().unwrap_or(""), a.name())).is_none() && a.namespace().is_some() {
                    nk += 1;
                }
            }
            let tn = node.tag_name();
            let rebuilt = match tn.namespace() {
                Some(ns) => roxmltree::ExpandedName::from((ns, tn.name())),
                None => roxmltree::ExpandedName::from(tn.name()),
            };
            if rebuilt != tn || (rebuilt.namespace(), rebuilt.name()) != (tn.namespace(), tn.name()) {
                nk += 1;
            }
            for ns in node.namespaces().take(8) {
                let again = node.namespaces().find(|m| m.name() == ns.name());
                if again.map(|m| (m.uri() == ns.uri()) != (m == ns)).unwrap_or(true) {
                    nk += 1;
                }
            }
        }
        writeln!(o, "{} NK {}", idx, nk).unwrap();
    }
    if flags.contains('c') {
        for node in doc.descendants() {
            let id = node.id().get();
            match node.node_type() {
                NodeType::Element => {
                    let tn = node.tag_name();
                    writeln!(o, "{} Q {} {} {}", idx, id, opt_hex(tn.namespace()), hex(tn.name().as_bytes())).unwrap();
                    for (k, a) in node.attributes().enumerate() {
                        writeln!(o, "{} A {} {} {} {} {}", idx, id, k, opt_hex(a.namespace()), hex(a.name().as_bytes()), hex(a.value().as_bytes())).unwrap();
                    }
                    for (k, ns) in node.namespaces().enumerate() {
                        writeln!(o, "{} S {} {} {} {}", idx, id, k, opt_hex(ns.name()), hex(ns.uri().as_bytes())).unwrap();
                    }
                }
                NodeType::PI => {
                    let pi = node.pi().unwrap();
                    writeln!(o, "{} K {} {} {}", idx, id, hex(pi.target.as_bytes()), opt_hex(pi.value)).unwrap();
                }
                NodeType::Comment => {
                    writeln!(o, "{} C {} {}", idx, id, hex(node.text().unwrap().as_bytes())).unwrap();
                }
                NodeType::Text => {
                    writeln!(o, "{} X {} {}", idx, id, hex(node.text().unwrap().as_bytes())).unwrap();
                }
                NodeType::Root => {}
            }
        }
    }
    #[cfg(feature = "positions")]
    if flags.contains('p') {
        for node in doc.descendants() {
            let id = node.id().get();
            let r = node.range();
            writeln!(o, "{} P {} {} {}", idx, id, r.start, r.end).unwrap();
            for (k, a) in node.attributes().enumerate() {
                let (r, q, v) = (a.range(), a.range_qname(), a.range_value());
                writeln!(o, "{} PA {} {} {} {} {} {} {} {}", idx, id, k, r.start, r.end, q.start, q.end, v.start, v.end).unwrap();
            }
        }
    }
    if flags.contains('b') {
        writeln!(o, "{} B input {} {}", idx, off(input, doc.input_text()), doc.input_text().len()).unwrap();
        for node in doc.descendants() {
            let id = node.id().get();
            match node.node_type() {
                NodeType::Element => {
                    let tn = node.tag_name();
                    writeln!(o, "{} B {} local {} {}", idx, id, off(input, tn.name()), tn.name().len()).unwrap();
                    for (k, a) in node.attributes().enumerate() {
                        let vs = a.value_storage();
                        writeln!(o, "{} B {} attr {} {} {} {} {} {}", idx, id, k, off(input, a.name()), a.name().len(), storage_kind(vs), if let StringStorage::Borrowed(s) = vs { off(input, s) } else { -1 }, vs.len()).unwrap();
                    }
                    for (k, ns) in node.namespaces().enumerate() {
                        let name_off = ns.name().map(|s| off(input, s)).unwrap_or(-2);
                        let name_len = ns.name().map(|s| s.len()).unwrap_or(0);
                        // uri storage is private; observe whether the uri points into the input
                        writeln!(o, "{} B {} ns {} {} {} {} {}", idx, id, k, name_off, name_len, off(input, ns.uri()), ns.uri().len()).unwrap();
                    }
                }
                NodeType::PI => {
                    let pi = node.pi().unwrap();
                    writeln!(o, "{} B {} pi {} {} {} {}", idx, id, off(input, pi.target), pi.target.len(), pi.value.map(|v| off(input, v)).unwrap_or(-2), pi.value.map(|v| v.len()).unwrap_or(0)).unwrap();
                }
                NodeType::Comment | NodeType::Text => {
                    let ts = node.text_storage().unwrap();
                    writeln!(o, "{} B {} text {} {} {}", idx, id, storage_kind(ts), if let StringStorage::Borrowed(s) = ts { off(input, s) } else { -1 }, ts.len()).unwrap();
                }
                NodeType::Root => {}
            }
        }
    }
    if flags.contains('t') {
        let mut s = format!("{} TP", idx);
        for p in 0..input.len() + 3 {
            let tp = doc.text_pos_at(p);
            write!(s, " {}:{}", tp.row, tp.col).unwrap();
        }
        writeln!(o, "{}", s).unwrap();
    }
    if flags.contains('a') {
        writeln!(o, "{} AR {}", idx, doc.root_element().id().get()).unwrap();
        for node in doc.descendants() {
            let id = node.id().get();
            writeln!(o, "{} AX {} anc{}", idx, id, ids(node.ancestors())).unwrap();
            writeln!(o, "{} AX {} prevs{}", idx, id, ids(node.prev_siblings())).unwrap();
            writeln!(o, "{} AX {} nexts{}", idx, id, ids(node.next_siblings())).unwrap();
            writeln!(o, "{} AX {} firsts{}", idx, id, ids(node.first_children())).unwrap();
            writeln!(o, "{} AX {} lasts{}", idx, id, ids(node.last_children())).unwrap();
            writeln!(o, "{} AX {} ch{}", idx, id, ids(node.children())).unwrap();
            writeln!(o, "{} AX {} chrev{}", idx, id, ids(node.children().rev())).unwrap();
            writeln!(o, "{} AX {} desc{}", idx, id, ids(node.descendants())).unwrap();
            writeln!(o, "{} AX {} descrev{}", idx, id, ids(node.descendants().rev())).unwrap();
            writeln!(
                o,
                "{} AE {} {} {} {} {} {}",
                idx,
                id,
                oid(node.parent_element()),
                oid(node.prev_sibling_element()),
                oid(node.next_sibling_element()),
                oid(node.first_element_child()),
                oid(node.last_element_child())
            )
            .unwrap();
            writeln!(o, "{} AH {} {} {}", idx, id, node.has_children() as u8, node.has_siblings() as u8).unwrap();
            writeln!(o, "{} AT {} {} {}", idx, id, opt_hex(node.text()), opt_hex(node.tail())).unwrap();
        }
    }
    if flags.contains('d') {
        for node in doc.descendants() {
            let id = node.id().get();
            let mut s = format!("{} D {} ch", idx, id);
            run_deque(&|| node.children(), |x: &Node| x.id().get() as i64, false, &mut s);
            writeln!(o, "{}", s).unwrap();
            let mut s = format!("{} D {} de", idx, id);
            run_deque(&|| node.descendants(), |x: &Node| x.id().get() as i64, true, &mut s);
            writeln!(o, "{}", s).unwrap();
            if node.is_element() {
                // attributes of one element are distinct by expanded name
                let names: Vec<(Option<&str>, &str)> = node.attributes().map(|a| (a.namespace(), a.name())).collect();
                let mut s = format!("{} D {} at", idx, id);
                run_deque(&|| node.attributes(), |a: &roxmltree::Attribute| names.iter().position(|p| *p == (a.namespace(), a.name())).map(|p| p as i64).unwrap_or(-9), true, &mut s);
                writeln!(o, "{}", s).unwrap();
                let ptrs: Vec<*const roxmltree::Namespace> = node.namespaces().map(|n| n as *const _).collect();
                let mut s = format!("{} D {} ns", idx, id);
                run_deque(&|| node.namespaces(), |n: &&roxmltree::Namespace| ptrs.iter().position(|p| std::ptr::eq(*p, *n)).map(|p| p as i64).unwrap_or(-9), true, &mut s);
                writeln!(o, "{}", s).unwrap();
            }
        }
    }
    if flags.contains('l') {
        // query sets, in first-seen order
        let mut names: Vec<(Option<String>, String)> = vec![];
        let mut prefixes: Vec<Option<String>> = vec![None, Some("absent".into()), Some("xml".into())];
        let mut uris: Vec<String> = vec!["absent".into(), "".into(), roxmltree::NS_XML_URI.into(), roxmltree::NS_XMLNS_URI.into()];
        let mut push_name = |ns: Option<&str>, l: &str| {
            for cand in [
                (ns.map(|s| s.to_string()), l.to_string()),
                (None, l.to_string()),
                (Some("other".to_string()), l.to_string()),
                (Some("".to_string()), l.to_string()),
            ] {
                if !names.contains(&cand) {
                    names.push(cand);
                }
            }
        };
        for node in doc.descendants() {
            if node.is_element() {
                push_name(node.tag_name().namespace(), node.tag_name().name());
                for a in node.attributes() {
                    push_name(a.namespace(), a.name());
                }
            }
        }
        push_name(None, "absent");
        push_name(Some(roxmltree::NS_XML_URI), "lang");
        push_name(None, "");
        for node in doc.descendants() {
            for ns in node.namespaces() {
                let p = ns.name().map(|s| s.to_string());
                if !prefixes.contains(&p) {
                    prefixes.push(p);
                }
                let u = ns.uri().to_string();
                if !uris.contains(&u) {
                    uris.push(u);
                }
            }
        }
        for node in doc.descendants() {
            let id = node.id().get();
            let tn = node.tag_name();
            let mut s = format!("{} L {} tn={},{}", idx, id, opt_hex(tn.namespace()), hex(tn.name().as_bytes()));
            for (ns, l) in &names {
                let (h, a, ha, an) = match ns {
                    Some(ns) => {
                        let q = (ns.as_str(), l.as_str());
                        (node.has_tag_name(q), node.attribute(q), node.has_attribute(q), node.attribute_node(q))
                    }
                    None => {
                        let q = l.as_str();
                        (node.has_tag_name(q), node.attribute(q), node.has_attribute(q), node.attribute_node(q))
                    }
                };
                let an_idx = an.map(|a| node.attributes().position(|b| (b.namespace(), b.name()) == (a.namespace(), a.name())).map(|p| p as i64).unwrap_or(-9)).unwrap_or(-1);
                write!(s, " {}{}{}:{}", h as u8, ha as u8, an_idx, opt_hex(a)).unwrap();
            }
            write!(s, " dn={}", opt_hex(node.default_namespace())).unwrap();
            for p in &prefixes {
                write!(s, " {}", opt_hex(node.lookup_namespace_uri(p.as_deref()))).unwrap();
            }
            for u in &uris {
                write!(s, " {}", opt_hex(node.lookup_prefix(u))).unwrap();
            }
            writeln!(o, "{}", s).unwrap();
        }
        // LB: answers must not depend on hidden state (what was asked before, from which buffer).  Counts anomalies:
        //  (1) the same query asked through a String buffer that is then overwritten in place with another string of
        //      the same length must follow the buffer's CONTENT; (2) a second pass in reverse node order and
        //  (3) alternating queries on far-apart nodes (ids i and i + 65536, i + 256) must repeat the first pass.
        let mut anomalies = 0usize;
        let els: Vec<Node> = doc.descendants().filter(|n| n.is_element()).collect();
        let first: Vec<(Option<&str>, Option<&str>)> = els.iter().map(|e| (e.default_namespace(), e.lookup_namespace_uri(None))).collect();
        for (k, e) in els.iter().enumerate().rev() {
            if (e.default_namespace(), e.lookup_namespace_uri(None)) != first[k] {
                anomalies += 1;
            }
        }
        for gap in [256usize, 65536] {
            for k in 0..els.len().saturating_sub(gap).min(64) {
                let (a, b) = (&els[k], &els[k + gap]);
                for _ in 0..2 {
                    if (a.default_namespace(), a.lookup_namespace_uri(None)) != first[k] || (b.default_namespace(), b.lookup_namespace_uri(None)) != first[k + gap] {
                        anomalies += 1;
                    }
                }
            }
        }
        for e in els.iter().take(64) {
            let tn = e.tag_name();
            if let Some(uri) = tn.namespace() {
                if !uri.is_empty() && uri.is_ascii() {
                    let mut buf = String::from(uri);
                    let r1 = e.has_tag_name((buf.as_str(), tn.name()));
                    // overwrite the buffer in place: same address, same length, different content
                    let last = buf.pop().unwrap();
                    buf.push(if last == 'x' { 'y' } else { 'x' });
                    let r2 = e.has_tag_name((buf.as_str(), tn.name()));
                    if !r1 || r2 {
                        anomalies += 1;
                    }
                }
            }
            for a in e.attributes() {
                if let Some(uri) = a.namespace() {
                    if !uri.is_empty() && uri.is_ascii() {
                        let mut buf = String::from(uri);
                        let r1 = e.attribute((buf.as_str(), a.name())).is_some();
                        let last = buf.pop().unwrap();
                        buf.push(if last == 'x' { 'y' } else { 'x' });
                        let others = e.attributes().filter(|b| b.name() == a.name() && b.namespace() == Some(buf.as_str())).count();
                        let r2 = e.attribute((buf.as_str(), a.name())).is_some();
                        if !r1 || (r2 && others == 0) {
                            anomalies += 1;
                        }
                        // asking the qualified name first must not change the answer for the bare name
                        let bare = e.attribute(a.name());
                        let _ = e.attribute((uri, a.name()));
                        if e.attribute(a.name()) != bare {
                            anomalies += 1;
                        }
                    }
                }
            }
        }
        // (4) attribute equality ACROSS documents: an attribute of this document against the attributes of two probe
        //     documents (one without, one with several namespaces), in both directions, must be equality of
        //     (namespace, local name, value)
        {
            let p1 = Document::parse("<e a='1' b=''/>").unwrap();
            let p2 = Document::parse("<e xmlns:n='urn:n' xmlns:m='urn:m' xmlns:k='urn:k' m:a='1' a='1' n:a='1' k:b=''/>").unwrap();
            let mine: Vec<roxmltree::Attribute> = doc.descendants().flat_map(|n| n.attributes()).take(12).collect();
            for pd in [&p1, &p2] {
                for pa in pd.root_element().attributes() {
                    for a in &mine {
                        let want = (a.namespace(), a.name(), a.value()) == (pa.namespace(), pa.name(), pa.value());
                        if (*a == pa) != want || (pa == *a) != want {
                            anomalies += 1;
                        }
                    }
                    for qd in [&p1, &p2] {
                        for qa in qd.root_element().attributes() {
                            let want = (qa.namespace(), qa.name(), qa.value()) == (pa.namespace(), pa.name(), pa.value());
                            if (qa == pa) != want {
                                anomalies += 1;
                            }
                        }
                    }
                }
            }
        }
        writeln!(o, "{} LB {}", idx, anomalies).unwrap();
        // attribute equality over the first 12 attributes of the document
        let all: Vec<roxmltree::Attribute> = doc.descendants().flat_map(|n| n.attributes()).take(12).collect();
        let mut s = format!("{} LQ", idx);
        for a in &all {
            s.push(' ');
            for b in &all {
                s.push(if a == b { '1' } else { '0' });
            }
        }
        writeln!(o, "{}", s).unwrap();
    }
    if flags.contains('o') {
        // a second, simultaneously live parse of the same input
        let doc2 = Document::parse_with_options(input, opt).unwrap();
        let (d1, d2): (&Document, &Document) = if (doc as *const Document as usize) < (&doc2 as *const Document as usize) { (doc, &doc2) } else { (&doc2, doc) };
        let mut s = format!("{} OG", idx);
        for k in (0..n as u32 + 3).chain([u32::MAX - 1]) {
            let r = d1.get_node(NodeId::new(k));
            write!(s, " {}", r.map(|x| (x.id().get() == k && x.id() == NodeId::new(k) && NodeId::new(k).get() == k) as i64).unwrap_or(-1)).unwrap();
        }
        writeln!(o, "{}", s).unwrap();
        let take = 6;
        let mut nodes: Vec<(u8, Node)> = vec![];
        for x in d1.descendants().take(take) {
            nodes.push((1, x));
        }
        for x in d2.descendants().take(take) {
            nodes.push((2, x));
        }
        let mut s = format!("{} OC", idx);
        for (_, a) in &nodes {
            s.push(' ');
            for (_, b) in &nodes {
                let c = match a.cmp(b) {
                    std::cmp::Ordering::Less => 'l',
                    std::cmp::Ordering::Equal => 'e',
                    std::cmp::Ordering::Greater => 'g',
                };
                s.push(c);
                s.push(if a == b { '1' } else { '0' });
                // partial_cmp and the four comparison operators (PartialOrd's provided methods can be overridden) agree with cmp; != is the negation of ==
                let c0 = a.cmp(b);
                use std::cmp::Ordering::{Greater, Less};
                let ops_ok = (a < b) == (c0 == Less) && (a <= b) == (c0 != Greater) && (a > b) == (c0 == Greater) && (a >= b) == (c0 != Less) && (a != b) == !(a == b);
                s.push(if a.partial_cmp(b) == Some(c0) && ops_ok { '.' } else { '!' });
            }
        }
        writeln!(o, "{}", s).unwrap();
        // sort all nodes of both documents, reversed input order
        let mut all: Vec<(u8, Node)> = vec![];
        for x in d2.descendants() {
            all.push((2, x));
        }
        for x in d1.descendants() {
            all.push((1, x));
        }
        all.reverse();
        all.sort_by(|a, b| a.1.cmp(&b.1));
        let mut s = format!("{} OS", idx);
        for (d, x) in &all {
            write!(s, " {}:{}", d, x.id().get()).unwrap();
        }
        writeln!(o, "{}", s).unwrap();
        let set: HashSet<Node> = d1.descendants().chain(d2.descendants()).chain(d1.descendants()).collect();
        use std::collections::hash_map::DefaultHasher;
        use std::hash::{Hash, Hasher};
        let mut hash_ok = true;
        for x in d1.descendants() {
            let y = d1.get_node(x.id()).unwrap();
            let (mut h1, mut h2) = (DefaultHasher::new(), DefaultHasher::new());
            x.hash(&mut h1);
            y.hash(&mut h2);
            hash_ok &= h1.finish() == h2.finish() && x == y;
        }
        writeln!(o, "{} OH {} {}", idx, set.len(), hash_ok as u8).unwrap();
        // nodes reached through nth()/skip() must round-trip through get_node with the same data
        let mut ok_rt = 0usize;
        for k in 0..3usize {
            let mut it = d1.descendants();
            if it.nth(k).is_none() {
                continue;
            }
            for x in it {
                let y = d1.get_node(x.id());
                if y.map(|y| y == x && y.node_type() == x.node_type() && y.tag_name() == x.tag_name() && y.text() == x.text()).unwrap_or(false) {
                    ok_rt += 1;
                }
            }
        }
        // nodes reached through nth_back() / rev().skip() on the descendants of EVERY node (subtrees that do not start at the
        // root): each must be the node forward iteration delivers at that place, and round-trip through get_node
        for sub in d1.descendants().take(40) {
            let fw: Vec<Node> = sub.descendants().collect();
            let t = fw.len();
            let good = |x: Node, pos: usize| -> bool {
                let y = d1.get_node(x.id());
                pos < t && x == fw[pos] && x.id() == fw[pos].id()
                    && y.map(|y| y == x && y.node_type() == x.node_type() && y.tag_name() == x.tag_name() && y.text() == x.text()).unwrap_or(false)
            };
            for k in 0..3usize {
                let mut it = sub.descendants();
                if let Some(x) = it.nth_back(k) {
                    if good(x, t - 1 - k) {
                        ok_rt += 1;
                    }
                }
                for (j, x) in sub.descendants().rev().skip(k).take(2).enumerate() {
                    if good(x, t - 1 - k - j) {
                        ok_rt += 1;
                    }
                }
                if let Some(x) = it.next_back() {
                    if t >= k + 2 && good(x, t - 2 - k) {
                        ok_rt += 1;
                    }
                }
            }
        }
        // the same for nodes delivered by ONE iterator used from both ends (four step patterns, each over the whole document)
        for pat in ["FB", "BF", "FBB", "BFF"] {
            let mut it = d1.descendants();
            let mut k = 0usize;
            let pb = pat.as_bytes();
            loop {
                let x = if pb[k % pb.len()] == b'F' { it.next() } else { it.next_back() };
                k += 1;
                let x = match x {
                    Some(x) => x,
                    None => break,
                };
                let y = d1.get_node(x.id());
                if y.map(|y| y == x && y.node_type() == x.node_type() && y.tag_name() == x.tag_name() && y.text() == x.text())
                    .unwrap_or(false)
                {
                    ok_rt += 1;
                }
            }
        }
        // descendants() of each of the first 40 nodes (leaves included), and the last item after skipping k
        let rt = |x: Node| -> bool {
            d1.get_node(x.id()).map(|y| y == x && y.node_type() == x.node_type() && y.tag_name() == x.tag_name() && y.text() == x.text()).unwrap_or(false)
        };
        for x in d1.descendants().take(40) {
            for y in x.descendants() {
                if rt(y) {
                    ok_rt += 1;
                }
            }
        }
        for k in 0..3usize {
            if let Some(y) = d1.descendants().skip(k).last() {
                if rt(y) && y.id().get() as usize == n - 1 {
                    ok_rt += 1;
                }
            }
        }
        writeln!(o, "{} OI {}", idx, ok_rt).unwrap();
    }
    if flags.contains('g') {
        // Debug / Display of everything into a counting sink: only totality is observed
        struct Count(usize);
        impl std::fmt::Write for Count {
            fn write_str(&mut self, s: &str) -> std::fmt::Result {
                self.0 += s.len();
                Ok(())
            }
        }
        // the number of lines of the Debug output of the document (the traversal is modelled)
        struct Lines(usize);
        impl std::fmt::Write for Lines {
            fn write_str(&mut self, s: &str) -> std::fmt::Result {
                self.0 += s.bytes().filter(|b| *b == b'\n').count();
                Ok(())
            }
        }
        let mut lc = Lines(0);
        write!(lc, "{:?}", doc).unwrap();
        let mut c = Count(0);
        write!(c, "{:?}", doc).unwrap();
        for node in doc.descendants() {
            write!(c, "{:?}{:?}{:?}{:?}", node, node.tag_name(), node.attributes(), node.namespaces()).unwrap();
            write!(c, "{:?}{:?}{:?}", node.children(), node.descendants(), node.ancestors()).unwrap();
            write!(c, "{:?}{:?}{:?}", node.id(), node.node_type(), node.pi()).unwrap();
            for a in node.attributes() {
                write!(c, "{:?}{:?}{}", a, a.value_storage(), a.value_storage()).unwrap();
            }
            for ns in node.namespaces() {
                write!(c, "{:?}", ns).unwrap();
            }
        }
        // Debug of ExpandedName writes the namespace URI with {} (raw), every other string with {:?} (escaped): a URI that
        // contains a line break (possible through a character reference) adds line breaks that are not writeln! calls.
        // The model counts writeln! calls, so those raw line breaks are subtracted here.
        let mut raw = 0usize;
        for node in doc.descendants() {
            if node.is_element() {
                raw += node.tag_name().namespace().map(|u| u.bytes().filter(|b| *b == b'\n').count()).unwrap_or(0);
                for a in node.attributes() {
                    raw += a.namespace().map(|u| u.bytes().filter(|b| *b == b'\n').count()).unwrap_or(0);
                }
            }
        }
        writeln!(o, "{} G ok {}", idx, lc.0 - raw).unwrap();
    }
}

fn run_case(idx: &str, flags: &str, dtd: bool, limit: u32, input: &str, o: &mut String) {
    let opt = ParsingOptions { allow_dtd: dtd, nodes_limit: limit };
    let r = if flags.contains('D') { Document::parse(input) } else { Document::parse_with_options(input, opt) };
    match r {
        Ok(doc) => {
            writeln!(o, "{} R ok {}", idx, doc.descendants().count()).unwrap();
            dump_doc(idx, flags, input, opt, &doc, o);
        }
        Err(e) => {
            writeln!(o, "{} R err", idx).unwrap();
            writeln!(o, "{} {}", idx, error_line(&e)).unwrap();
            let (ev, ed) = error_pos_lines(&e);
            writeln!(o, "{} {}", idx, ev).unwrap();
            writeln!(o, "{} {}", idx, ed).unwrap();
            writeln!(o, "{} EM {}", idx, hex(format!("{}", e).as_bytes())).unwrap();
            if flags.contains('g') {
                let _ = format!("{}{:?}", e, e);
                writeln!(o, "{} G ok 0", idx).unwrap();
            }
        }
    }
}

fn parse_case(line: &str) -> Option<(String, String, bool, u32, String)> {
    let mut it = line.split(' ');
    let idx = it.next()?.to_string();
    let flags = it.next()?.to_string();
    let dtd = it.next()? == "1";
    let limit: u32 = it.next()?.parse().ok()?;
    let input = String::from_utf8(unhex(it.next()?)).ok()?;
    Some((idx, flags, dtd, limit, input))
}

fn main() {
    let args: Vec<String> = std::env::args().collect();
    std::panic::set_hook(Box::new(|_| {}));
    let stdout = std::io::stdout();
    let mut w = BufWriter::new(stdout.lock());
    match args.get(1).map(|s| s.as_str()) {
        Some("dump") => {
            let f = std::fs::File::open(&args[2]).expect("cases file");
            for line in std::io::BufReader::new(f).lines() {
                let line = line.unwrap();
                if line.is_empty() {
                    continue;
                }
                let Some((idx, flags, dtd, limit, input)) = parse_case(&line) else {
                    writeln!(w, "? BADCASE {}", line).unwrap();
                    continue;
                };
                let res = std::panic::catch_unwind(|| {
                    let mut o = String::new();
                    run_case(&idx, &flags, dtd, limit, &input, &mut o);
                    o
                });
                match res {
                    Ok(o) => w.write_all(o.as_bytes()).unwrap(),
                    Err(p) => {
                        let msg = p.downcast_ref::<String>().cloned().or_else(|| p.downcast_ref::<&str>().map(|s| s.to_string())).unwrap_or_default();
                        writeln!(w, "{} R panic {}", idx, hex(msg.as_bytes())).unwrap();
                    }
                }
            }
        }
        Some("child") => {
            // child <flags> <dtd> <limit> <file with raw input> ; parses on a 1 MiB-stack thread
            let flags = args[2].clone();
            let dtd = args[3] == "1";
            let limit: u32 = args[4].parse().unwrap();
            let input = std::fs::read_to_string(&args[5]).expect("input file");
            let h = std::thread::Builder::new()
                .stack_size(1 << 20)
                .spawn(move || {
                    let mut o = String::new();
                    run_case("0", &flags, dtd, limit, &input, &mut o);
                    // keep only the head of big dumps
                    o.lines().take(3).map(|l| l.to_string()).collect::<Vec<_>>().join("\n")
                })
                .unwrap();
            match h.join() {
                Ok(o) => writeln!(w, "{}", o).unwrap(),
                Err(_) => writeln!(w, "0 R panic x").unwrap(),
            }
        }
        Some("threads") => {
            // threads <cases> <nthreads> <reps>: every thread dumps every document, shared by reference
            let nthreads: usize = args[3].parse().unwrap();
            let reps: usize = args[4].parse().unwrap();
            let f = std::fs::File::open(&args[2]).expect("cases file");
            for line in std::io::BufReader::new(f).lines() {
                let line = line.unwrap();
                let Some((idx, flags, dtd, limit, input)) = parse_case(&line) else { continue };
                let opt = ParsingOptions { allow_dtd: dtd, nodes_limit: limit };
                let Ok(doc) = Document::parse_with_options(&input, opt) else {
                    writeln!(w, "{} TH skip", idx).unwrap();
                    continue;
                };
                let mut single = String::new();
                dump_doc(&idx, &flags, &input, opt, &doc, &mut single);
                let hammer_expected: Vec<[i64; 8]> = doc.descendants().map(|nd| hammer_answers(&doc, &nd)).collect();
                let hammer_expected = &hammer_expected;
                let mut same = 0usize;
                let mut diff = 0usize;
                std::thread::scope(|s| {
                    let mut hs = vec![];
                    for t in 0..nthreads {
                        let (doc, idx, flags, input, single) = (&doc, &idx, &flags, &input, &single);
                        hs.push(s.spawn(move || {
                            let mut ok = 0usize;
                            let mut bad = 0usize;
                            for r in 0..reps {
                                // vary the order in which the sections are produced
                                let fl: String = if (t + r) % 2 == 0 { flags.clone() } else { flags.chars().rev().collect() };
                                let mut o = String::new();
                                dump_doc(idx, &fl, input, opt, doc, &mut o);
                                let mut a: Vec<&str> = o.lines().collect();
                                let mut b: Vec<&str> = single.lines().collect();
                                a.sort();
                                b.sort();
                                if a == b {
                                    ok += 1
                                } else {
                                    bad += 1
                                }
                            }
                            // hammer: the navigation / lookup answers for every node, asked in an order that differs per thread
                            // (stride and offset from the thread number), many times over, against the answers of the single-threaded pass
                            if hammer_expected.len() > 1 {
                                let m = hammer_expected.len();
                                let stride = [1usize, 3, 5, 7, 11, 13, 17, 19][t % 8];
                                let rounds = std::cmp::max(1, 40000 / m);
                                let mut k = (t * 7) % m;
                                let mut wrong = 0usize;
                                for _ in 0..rounds * m {
                                    let nd = doc.get_node(NodeId::new(k as u32)).unwrap();
                                    if hammer_answers(doc, &nd) != hammer_expected[k] {
                                        wrong += 1;
                                    }
                                    k = (k + stride) % m;
                                }
                                if wrong > 0 {
                                    bad += 1
                                }
                            }
                            (ok, bad)
                        }));
                    }
                    for h in hs {
                        let (a, b) = h.join().unwrap();
                        same += a;
                        diff += b;
                    }
                });
                w.write_all(single.as_bytes()).unwrap();
                writeln!(w, "{} TH {} {}", idx, same, diff).unwrap();
            }
        }
        _ => {
            eprintln!("usage: rxharness dump|child|threads ...");
            std::process::exit(2);
        }
    }
}

