// Compile-time obligations of C20: every public type of roxmltree is Send + Sync.
// Built only by C20's check (a failure to compile IS the violation), so that a change to the
// auto traits does not stop the other properties' checks from building their harness.
fn assert_send_sync<T: Send + Sync>() {}
fn auto_traits() {
    assert_send_sync::<roxmltree::Document<'static>>();
    assert_send_sync::<roxmltree::Node<'static, 'static>>();
    assert_send_sync::<roxmltree::Attribute<'static, 'static>>();
    assert_send_sync::<roxmltree::Attributes<'static, 'static>>();
    assert_send_sync::<roxmltree::AxisIter<'static, 'static>>();
    assert_send_sync::<roxmltree::Children<'static, 'static>>();
    assert_send_sync::<roxmltree::Descendants<'static, 'static>>();
    assert_send_sync::<roxmltree::NamespaceIter<'static, 'static>>();
    assert_send_sync::<roxmltree::Namespace<'static>>();
    assert_send_sync::<roxmltree::ExpandedName<'static, 'static>>();
    assert_send_sync::<roxmltree::StringStorage<'static>>();
    assert_send_sync::<roxmltree::Error>();
    assert_send_sync::<roxmltree::NodeId>();
    assert_send_sync::<roxmltree::TextPos>();
    assert_send_sync::<roxmltree::ParsingOptions>();
    assert_send_sync::<roxmltree::PI<'static>>();
    assert_send_sync::<roxmltree::NodeType>();
}

fn main() {
    auto_traits();
    // iterators can be moved to and used on other threads
    let doc = roxmltree::Document::parse("<a><b/><c>t</c></a>").unwrap();
    let n = doc.root_element().first_child().unwrap();
    std::thread::scope(|s| {
        let (a, b, c, d, e) = (n.ancestors(), n.next_siblings(), doc.root().children(), doc.descendants(), n.attributes());
        let ns = doc.root_element().namespaces();
        s.spawn(move || a.count() + b.count() + c.count() + d.count() + e.count() + ns.count());
    });
    println!("auto traits ok");
}
