/verif/harness/target-positions/release/autotraits: /repo/src/lib.rs /repo/src/parse.rs /repo/src/tokenizer.rs /verif/harness/src/bin/autotraits.rs
